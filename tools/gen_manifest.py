#!/usr/bin/env python3
"""Regenerates /verif/MANIFEST.json from the table below (kept in one place so it stays consistent)."""
import json, os
HERE = os.path.dirname(os.path.dirname(os.path.abspath(__file__)))

NA = {
 "C02": "pure function of the rendered text: deciding it means compiling every generated program with rustc and running quick_xml::de on it (translation validation); there is no schedule, fault, I/O or history for a simulator to control, and the brief asks for not-applicable rather than a change of technique",
 "C04": "syntactic well-formedness and name uniqueness of to_serde_struct(tree) is a pure function of an in-memory tree: no reader, no entropy-dependent iteration (after the C05 repair), no failing history, no OS; input generation alone would be property-based testing, not simulation",
 "C10": "a relation between two renderings of one in-memory tree under two Options values: pure function of (tree, options), nothing to schedule or to fail",
 "C13": "same as C02 for the serde-xml-rs preset: needs rustc and serde_xml_rs run on every generated program; no schedule, fault or I/O involved",
 "C14": "struct-name shape is a pure function of the in-memory tree; no nondeterminism, fault, I/O or multi-step failing history reaches it",
 "C15": "merge_necessity is a stateless pure function of two lists; nothing for a scheduler or fault injector to decide (its order clause was violated by the same line as the C09 defect and is restored by that repair, but C15 itself is not claimed)",
 "C16": "single-owner synchronous &mut operations on a hand-built tree: a history, but one that meets no nondeterminism, fault, I/O or interleaving; a model-based operation-sequence test would decide it, which is a different technique",
}
PENDING = {}
for k in os.environ.get("XSG_PENDING", "").split():
    PENDING[k] = "applicable (see DESIGN.md §3) but its check is not built yet in this commit; will be claimed once the check exists and is clean on the unchanged tree"

CHECKS = {
 "C01": dict(tech="deterministic simulation: seeded histories over replicas with varied entropy / channel / failed-then-retried deliveries; document-against-schema validator as invariant after every delivery",
   text="Seeded search over delivery histories and environments. After every delivery each replica's rendered schema (observed through the public API and a strict parser of the output) must admit every document delivered so far, checked by an independent validator on the generator's DOMs. The state the property depends on (occurrence counters, standalone flags, internal child order) is what entropy, chunking and failed deliveries touch. Sampling, not proof.",
   ref="DESIGN.md §2.4-2.6, §3 C01", note="Trusted: generated DOM == reader's view (cross-checked every run); a field counts as bound if its serde name is the one the quick-xml preset documents (local name for elements, `@` + local name for attributes, `xmlns:*` keeps its prefix). C01's precondition is enforced per schema position; violating draws are discarded and counted."),
 "C03": dict(tech="deterministic simulation: seeded histories over replicas; observation compared with an executable reference model after every delivery",
   text="Same sessions as C01, equality oracle: after every delivery the observation equals infer(DOMs delivered so far) - same fields by XML name, same Option / Vec / String typing, same text flag, and the whole-tree rendering is exactly one struct per non-String position. The reference model is ~80 lines straight from the statement. Sampling, not proof.",
   ref="DESIGN.md §2.6, §3 C03", note="Trusted: the reference model (definition in the statement); attributes compared by bound serde name; String-typing is not compared for elements literally named 'string' (ambiguous in the rendered text)."),
 "C05": dict(tech="deterministic simulation: seeded entropy twins (hash-seed schedules) plus veteran-thread, migrating, logging, populated-environment, lazy and process twins over generated histories, byte-equality oracle",
   text="Seeded search over (history, hash-entropy) pairs: each run parses and extends the same generated history on 2-4 fresh threads whose RandomState keys are chosen by the simulator, renders after every delivery with every preset x sort combination (twice per thread) and demands byte equality. Further twins differ in what the thread did before (warm-ups), in which thread runs each delivery, in the log level, in the environment variables (interposed getenv), in whether intermediate trees were rendered, and in the process (the shipped CLI run twice under the shim). Determinism is a statement over all repetitions, which only a controlled environment can vary and replay. Sampling, not proof.",
   ref="DESIGN.md §2.2, §3 C05, §11", note="Trusted: std's RandomState obtains its keys through the interposable getrandom symbol (canary on every batch); allocation addresses are varied but not controlled; findings that need the worker process's history are replayed as a run prefix."),
 "C06": dict(tech="deterministic simulation: replicas fed by an unreliable delivery layer (reorder, duplicate, empty inputs, failed-then-retried deliveries, all k! orders in sweeps); convergence to the reference model of the union, idempotence, monotonicity and failure-reporting checked over the recorded histories",
   text="Convergence of a merge under reordering, duplicating, failing delivery: every replica must end at infer(union) (compared by XML name and flags, order-insensitive) and equal to every other replica; redelivery and element-less inputs are no-ops; no field / Option / Vec / text flag is ever lost along a history; a delivery whose stream was at fault (independent verdict) returns Err and an intact one Ok. Sampling plus bounded all-orders sweeps.",
   ref="DESIGN.md §2.4, §3 C06", note="Trusted: reference model; independent verdict pass (quick-xml events); the client keeps its pre-operation clone because extend_struct consumes the tree."),
 "C07": dict(tech="deterministic simulation with fault injection: hostile bytes x reader plans (chunking, EINTR, I/O errors, truncation) x reader configurations, in crash-isolated workers; step-budget liveness",
   text="Mass generation of hostile byte strings delivered through every kind of simulated reader (adversarial chunk boundaries, EINTR bursts, BufReader capacities, hard I/O errors and early EOF at chosen offsets) under all 128 reader configurations, as parse and parse+extend histories, every Ok result rendered with arbitrary option strings. Panics are caught per operation, aborts and stack overflows are seen as worker-process death, non-termination as an exceeded reader step budget (no wall clock). Sampling, not proof.",
   ref="DESIGN.md §2.3, §2.8, §3 C07", note="Inputs deeper than 200 open tags are outside the statement and discarded. 2 MiB replica stacks; overflow-checks and debug-assertions on."),
 "C08": dict(tech="deterministic simulation with fault injection: same reader plans; verdict of an independent drain of the same reader events as oracle, fault-free and fault-injecting runs separated",
   text="Every delivery's result is compared with the verdict of an independent pass over the same events (same bytes, same plan, fresh reader): Ok iff no reader error / attribute error / non-UTF-8 name, key, text / missing root (initial parse only), and on Err the same variant with the reader's byte position and error, AttrError value or offending bytes. Transparent faults (chunking, EINTR) must never surface; a hard I/O error is what the reader reports and must not be swallowed. Sampling, not proof.",
   ref="DESIGN.md §2.6, §3 C08", note="Trusted: quick-xml's event stream is the definition of 'what the underlying reader reports'; Display wording is not compared."),
 "C09": dict(tech="deterministic simulation: seeded histories over replicas (entropy / channel twins); order oracle against the reference model's first-appearance order after every delivery",
   text="After every delivery, under both sort options: attributes, then text, then children; attribute and child fields in first-appearance (or XML-name) order by greedy rank matching against the model; struct definitions equal the pre-order walk; the two renderings agree as multisets of structs and field lines. Order is history-dependent (demotion reorders the internal list; attributes are merged across occurrences and documents), hence checked along simulated histories. Sampling, not proof.",
   ref="DESIGN.md §3 C09", note="Trusted: reference model order = document order within a document, delivery order across documents; XML-name order = Rust String order."),
 "C11": dict(tech="deterministic simulation with fault injection: channel twins (chunking incl. every two-chunk split in sweeps, EINTR, BufReader capacities, expand_empty_elements) and rewrite twins of the same DOM, byte-equality oracle",
   text="The same generated history is delivered to a baseline and to twins that differ only in channel (chunk boundaries inside every token kind and inside UTF-8 sequences, EINTR, BufReader capacity 1..64, expand_empty_elements) and/or in incidental detail rewritten on the same DOM (values, text, CDATA, comments, PIs, prolog, empty-element form); renderings must be byte-identical after every delivery. 3% of cases sweep every two-chunk split of a small document. Sampling plus bounded sweeps.",
   ref="DESIGN.md §2.3, §3 C11", note="Trusted: the rewrites preserve structure (checked per run: equal structure trees, reader sees the DOM). Whitespace-only text counts as character data."),
 "C12": dict(tech="deterministic simulation with fault injection: the shipped CLI binary run inside a generated file-system sandbox under an LD_PRELOAD shim that injects open/read/write/statx faults, short I/O and the hash entropy",
   text="The real release binary is executed in a private sandbox with PRNG-drawn input state, output-path state, argv and one fault plan (EINTR, short reads/writes, errno on open/read/write/statx, entropy). Expected output is computed in-process from the same /repo library; exit status, stdout, stderr and the output file (bytes, inode, mtime) are compared. Transparent faults must not change the outcome; input-side failures must leave the output path untouched. Sampling plus single-fault sweeps.",
   ref="DESIGN.md §2.7, §3 C12", note="Trusted: glibc dynamic linking (interposition verified by the shim's call counters on every run); behaviour after the output file was created and when stdout/stderr themselves fail is recorded, not judged."),
}

def main():
    claimed = [k for k in sorted(CHECKS) if k not in PENDING]
    m = {
     "version": 1,
     "setup_cmd": "./check build",
     "hooks": {
       "guard": "xsg_verif",
       "enable": "no source hook is needed: every seam is reached from outside /repo (BufRead type parameter, caller-owned reader Config, interposed getrandom symbol, LD_PRELOAD shim for the CLI); the guard name is reserved and unused, /repo carries no instrumentation",
       "baseline_off_cmd": "cd /repo && cargo test --workspace --no-fail-fast --offline",
       "source_commits": [],
       "add_only": True
     },
     "engines": [
       {"name": "xsg-sim", "path": "sim/", "serves_properties": claimed, "kind_free_text": "seeded deterministic simulator: one PRNG per run decides workload, entropy of every replica thread (interposed getrandom), reader chunking / EINTR / I/O faults, delivery histories, CLI sandbox and libc fault plan; crash-isolated worker processes; delta-minimised explicit replay files"}
     ],
     "checks": [],
     "not_applicable": [],
     "notes": "All checks: exit 0 held / 1 VIOLATION with minimised replay file (verified by replaying it in a fresh process) / 2 harness error. VERIF_SEED (default 1) decides everything; run counts per tier are fixed numbers. KNOWN_FINDINGS.txt lists repaired defects (fixed:) and would list recorded ones (known:)."
    }
    for k in claimed:
        c = CHECKS[k]
        m["checks"].append({
          "property_id": k,
          "quick_cmd": f"./check {k} quick",
          "thorough_cmd": f"./check {k} thorough",
          "evidence_file": f"evidence/{k}.json",
          "replay_cmd_template": f"./check {k} --replay {{path}}",
          "engine": "xsg-sim",
          "technique": c["tech"],
          "level_claimed": {"category": "exploration", "text": c["text"], "design_ref": c["ref"]},
          "level_note": c["note"],
        })
    na = dict(NA); na.update(PENDING)
    m["not_applicable"] = [{"property_id": k, "reason": v} for k, v in sorted(na.items())]
    json.dump(m, open(os.path.join(HERE, "MANIFEST.json"), "w"), indent=1)
    print("claimed:", claimed, "not_applicable:", sorted(na))

main()
