#!/bin/sh
# usage: tools/confirm_seed.sh <dir with patch.diff + demo.rs>
# Confirms a seeded change independently in a scratch worktree (outside /repo and /verif):
#   patch applies; existing suite passes with it; demo fails with it; demo passes without it.
# Prints "CONFIRMED" or the step that failed. Removes the worktree afterwards (shared build cache in /tmp/xsg-confirm-target).
D="$(realpath "$1")"
W="/tmp/xsg-confirm-$$"
export CARGO_NET_OFFLINE=true CARGO_TARGET_DIR=/tmp/xsg-confirm-target
git -C /repo worktree add -q --detach "$W" HEAD || exit 2
trap 'git -C /repo worktree remove --force "$W" 2>/dev/null; rm -rf "$W"' EXIT INT TERM
cd "$W" || exit 2
git apply "$D/patch.diff" || { echo "FAILED: patch does not apply"; exit 1; }
if git diff --name-only | grep -qv '^src/'; then echo "FAILED: patch touches files outside src/"; exit 1; fi
suite=$(cargo test --workspace --offline 2>&1)
echo "$suite" | grep -q "test result: ok. 102 passed" || { echo "FAILED: existing suite does not pass with the change"; echo "$suite" | grep -E "test result|FAILED|panicked" | head; exit 1; }
echo "$suite" | grep -E "^test result" | grep -qv "ok\." && { echo "FAILED: some suite target failed"; exit 1; }
mkdir -p tests && cp "$D/demo.rs" tests/demo_seed.rs
with=$(cargo test --offline --test demo_seed 2>&1); rc_with=$?
git checkout -q -- src
without=$(cargo test --offline --test demo_seed 2>&1); rc_without=$?
if [ $rc_with -eq 0 ]; then echo "FAILED: demo passes WITH the change"; exit 1; fi
echo "$with" | grep -q "error\[E" && { echo "FAILED: demo does not compile with the change"; echo "$with" | grep -A5 "error\[E" | head -20; exit 1; }
if [ $rc_without -ne 0 ]; then echo "FAILED: demo fails WITHOUT the change"; echo "$without" | tail -15; exit 1; fi
echo "CONFIRMED: suite 102+3 pass with change; demo fails with change ($(echo "$with" | grep -E '^test result' | head -1)); demo passes without ($(echo "$without" | grep -E '^test result' | head -1))"
