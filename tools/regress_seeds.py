#!/usr/bin/env python3
"""Regression over every stored seeded change: for each seeded/<name>/ the checks that its detection record names
as having CAUGHT it are run again (quick tier, scratch worktree via tools/try_patch.sh) until one reports a
violation. Prints one line per seed and a summary; exit 1 if a seed that was recorded as caught is now missed.
usage: tools/regress_seeds.py [slots=4] [name-filter-regex]"""
import json, glob, os, re, subprocess, sys
from concurrent.futures import ThreadPoolExecutor
HERE = os.path.dirname(os.path.dirname(os.path.abspath(__file__)))
slots = int(sys.argv[1]) if len(sys.argv) > 1 else 4
flt = re.compile(sys.argv[2]) if len(sys.argv) > 2 else None
jobs = []
for d in sorted([d for d in glob.glob(os.path.join(HERE, 'seeded', '*')) if os.path.isdir(d)]):
    name = os.path.basename(d)
    if flt and not flt.search(name):
        continue
    m = json.load(open(os.path.join(d, 'meta.json')))
    det = m['detection']
    checks = []
    for c in re.findall(r'(C\d\d)(?: quick| thorough)? CAUGHT', det):
        if c not in checks:
            checks.append(c)
    # the latest record counts most: try the last-named check first
    checks.reverse()
    jobs.append((name, d, checks, 'not caught' in det.lower() or 'out of reach' in det.lower()))
import queue
free = queue.Queue()
for i in range(slots):
    free.put(f"r{i}")
def run(job):
    name, d, checks, known_miss = job
    if not checks:
        return name, 'skipped (recorded as not caught)' if known_miss else 'skipped (no check recorded)', known_miss
    slot = free.get()
    try:
        for c in checks:
            out = subprocess.run([os.path.join(HERE, 'tools', 'try_patch.sh'), slot, os.path.join(d, 'patch.diff'), c], capture_output=True, text=True).stdout
            if ' CAUGHT' in out:
                cls = re.search(r'\[[^\]]*\]', out)
                return name, f"caught by {c} {cls.group(0) if cls else ''}", True
            if 'ERROR' in out or 'does not apply' in out:
                return name, f"ERROR {c}: {out.strip()[:200]}", False
        return name, f"MISSED (tried {' '.join(checks)})", False
    finally:
        free.put(slot)
bad = 0
with ThreadPoolExecutor(max_workers=slots) as ex:
    for name, res, ok in ex.map(run, jobs):
        print(f"{name}: {res}", flush=True)
        if not ok:
            bad += 1
print(f"SUMMARY: {len(jobs)} seeds, {bad} not as recorded")
sys.exit(1 if bad else 0)
