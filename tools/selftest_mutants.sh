#!/bin/sh
# Sensitivity self-test (DESIGN.md §8): every patch in mutants/ is applied to a scratch checkout of /repo's HEAD
# (outside /repo and /verif), the checks named for it in mutants/EXPECT.tsv must report a VIOLATION, and the
# scratch checkout is removed afterwards. With "all" as first argument every claimed check is run on every
# mutant and the full matrix is printed. Nothing here touches /repo's working tree or the evidence files.
cd "$(dirname "$0")/.." || exit 2
MODE="${1:-expected}"
ALLCHECKS="C01 C03 C05 C06 C07 C08 C09 C11 C12"
SCRATCH="${XSG_SCRATCH:-/tmp/xsg-mutant-$$}"
rm -rf "$SCRATCH"
git -C /repo worktree add -q --detach "$SCRATCH" HEAD || exit 2
trap 'git -C /repo worktree remove --force "$SCRATCH" 2>/dev/null; rm -rf "$SCRATCH"' EXIT INT TERM
fail=0
while IFS="$(printf '\t')" read -r name expect rest; do
    [ -n "$name" ] || continue
    [ -n "$ONLY" ] && [ "$ONLY" != "$name" ] && continue
    git -C "$SCRATCH" checkout -q -- . && git -C "$SCRATCH" apply "$(pwd)/mutants/$name.patch" || { echo "$name: patch does not apply"; fail=1; continue; }
    if [ "$MODE" = "all" ]; then list="$ALLCHECKS"; else list="$expect"; fi
    line="$name:"
    for id in $list; do
        out=$(XSG_REPO="$SCRATCH" ./check "$id" quick 2>&1); rc=$?
        case " $expect " in *" $id "*) want=1 ;; *) want=0 ;; esac
        if [ $rc -eq 1 ]; then r="CAUGHT"; elif [ $rc -eq 0 ]; then r="quiet"; else r="ERROR($rc)"; fi
        cls=$(printf '%s\n' "$out" | sed -n 's/^violation class: //p' | head -1)
        line="$line $id=$r${cls:+[$cls]}"
        if [ $want -eq 1 ] && [ $rc -ne 1 ]; then fail=1; line="$line(MISSED)"; fi
    done
    echo "$line"
done < mutants/EXPECT.tsv
exit $fail
