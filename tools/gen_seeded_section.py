#!/usr/bin/env python3
"""Rewrites the table between <!-- SEEDED-TABLE-BEGIN --> and <!-- SEEDED-TABLE-END --> in DESIGN.md from seeded/*/meta.json."""
import json, glob, os, re
HERE = os.path.dirname(os.path.dirname(os.path.abspath(__file__)))
rows = []
for d in sorted(glob.glob(os.path.join(HERE, 'seeded', '*'))):
    m = json.load(open(os.path.join(d, 'meta.json')))
    s = (m.get('summary') or '').replace('\n', ' ').replace('|', '/')
    det = m['detection'].replace('\n', ' ').replace('|', '/')
    rows.append(f"| {os.path.basename(d)} | {s[:170]} | {det[:330]} |")
table = "| seed | change | detection |\n|---|---|---|\n" + "\n".join(rows) + "\n"
p = os.path.join(HERE, 'DESIGN.md')
s = open(p).read()
s = re.sub(r'(<!-- SEEDED-TABLE-BEGIN -->\n).*?(<!-- SEEDED-TABLE-END -->)', lambda m: m.group(1) + table + m.group(2), s, flags=re.S)
open(p, 'w').write(s)
print(len(rows), "seeds listed")
