#!/bin/sh
# usage: tools/try_patch.sh <slot> <patch-file> [check ids...]   (default: all claimed checks, quick tier)
# Applies the patch to a scratch worktree of /repo's HEAD at /tmp/xsg-slot-<slot> (outside /repo and /verif),
# runs the checks against it (XSG_REPO development mode: separate outputs, nothing in /verif/evidence is touched),
# prints one line per check and keeps replay files under target/alt/<n>/replays. The worktree is removed afterwards.
cd "$(dirname "$0")/.." || exit 2
SLOT="$1"; PATCH="$(realpath "$2")"; shift 2
CHECKS="${*:-C01 C03 C05 C06 C07 C08 C09 C11 C12}"
SCRATCH="/tmp/xsg-slot-$SLOT"
git -C /repo worktree remove --force "$SCRATCH" 2>/dev/null; rm -rf "$SCRATCH"
git -C /repo worktree add -q --detach "$SCRATCH" HEAD || exit 2
trap 'git -C /repo worktree remove --force "$SCRATCH" 2>/dev/null; rm -rf "$SCRATCH"' EXIT INT TERM
git -C "$SCRATCH" apply "$PATCH" || { echo "patch does not apply"; exit 2; }
for id in $CHECKS; do
    out=$(XSG_REPO="$SCRATCH" ./check "$id" ${TIER:-quick} 2>&1); rc=$?
    cls=$(printf '%s\n' "$out" | sed -n 's/^violation class: //p' | head -1)
    rp=$(printf '%s\n' "$out" | sed -n 's/^VIOLATION .*replay=//p' | head -1)
    case $rc in 0) r=quiet ;; 1) r=CAUGHT ;; *) r="ERROR($rc): $(printf '%s\n' "$out" | tail -2 | tr '\n' ' ')" ;; esac
    echo "$id $r ${cls:+[$cls]} $rp"
done
