//! Seam S1: the entropy that seeds std's `RandomState`.
//!
//! std obtains the per-thread SipHash keys of `RandomState` through the libc symbol `getrandom`
//! (looked up weakly, documented as interposable). Defining the symbol in this binary routes that
//! call here. A simulated replica runs on a fresh OS thread whose 128-bit entropy was drawn from the
//! run's PRNG and installed *before* the thread touches any `HashMap`; threads run one at a time.
//! When no entropy is installed (main thread, harness code) the real system call is made.

use std::cell::{Cell, RefCell};
use std::ffi::{c_char, c_long, c_uint, c_void, CStr};

extern "C" {
    fn syscall(num: c_long, ...) -> c_long;
    fn dlsym(handle: *mut c_void, symbol: *const c_char) -> *mut c_void;
}

// ---------------------------------------------------------------------------------------------
// environment variables are an input too (seam S1b): `getenv` is interposed like `getrandom`
// ---------------------------------------------------------------------------------------------

thread_local! {
    static ENV_OVERRIDE: Cell<bool> = const { Cell::new(false) };
    static ENV_SEEN: RefCell<Vec<String>> = const { RefCell::new(Vec::new()) };
}

/// what an "env-" replica sees instead of the (unset) real variables
const ENV_TABLE: &[(&str, &CStr)] = &[
    ("LANG", c"tr_TR.UTF-8"),
    ("LC_ALL", c"tr_TR.UTF-8"),
    ("LC_COLLATE", c"tr_TR.UTF-8"),
    ("LC_CTYPE", c"tr_TR.UTF-8"),
    ("LANGUAGE", c"tr"),
    ("TZ", c"Asia/Tokyo"),
    ("HOME", c"/nonexistent"),
    ("PWD", c"/"),
    ("TMPDIR", c"/nonexistent"),
    ("USER", c"somebody"),
    ("RUST_LOG", c"trace"),
    ("COLUMNS", c"20"),
    ("NO_COLOR", c"1"),
];
/// read by std itself on its own behalf
const ENV_IGNORED: &[&str] = &["RUST_BACKTRACE", "RUST_LIB_BACKTRACE", "RUST_MIN_STACK"];

/// # Safety
/// libc contract of getenv(3)
#[no_mangle]
pub unsafe extern "C" fn getenv(name: *const c_char) -> *mut c_char {
    static REAL: std::sync::atomic::AtomicUsize = std::sync::atomic::AtomicUsize::new(0);
    let mut real = REAL.load(std::sync::atomic::Ordering::Relaxed);
    if real == 0 {
        // RTLD_NEXT
        real = dlsym(usize::MAX as *mut c_void, c"getenv".as_ptr()) as usize;
        REAL.store(real, std::sync::atomic::Ordering::Relaxed);
    }
    if !name.is_null() {
        let recording = ENTROPY.try_with(|e| e.get().is_some()).unwrap_or(false);
        if recording {
            if let Ok(n) = CStr::from_ptr(name).to_str() {
                if !ENV_IGNORED.contains(&n) && !n.starts_with("MALLOC_") && !n.starts_with("GLIBC_") {
                    let _ = ENV_SEEN.try_with(|s| {
                        if let Ok(mut v) = s.try_borrow_mut() {
                            if !v.iter().any(|x| x == n) {
                                v.push(n.to_string());
                            }
                        }
                    });
                    if ENV_OVERRIDE.try_with(|o| o.get()).unwrap_or(false) {
                        if let Some((_, v)) = ENV_TABLE.iter().find(|(k, _)| *k == n) {
                            return v.as_ptr() as *mut c_char;
                        }
                        // a variable nobody thought of: set, to a harmless-looking value
                        return c"1".as_ptr() as *mut c_char;
                    }
                }
            }
        }
    }
    if real == 0 {
        return std::ptr::null_mut();
    }
    let f: unsafe extern "C" fn(*const c_char) -> *mut c_char = std::mem::transmute(real);
    f(name)
}

// ---------------------------------------------------------------------------------------------
// simulated time (seam S1c): `clock_gettime` is interposed; a replica thread's clock = real clock + skew,
// and the skew only moves when the simulator says that time has passed (a slow byte source)
// ---------------------------------------------------------------------------------------------

thread_local! {
    /// wall clocks (CLOCK_REALTIME and its coarse variant) can also be stepped backwards; monotonic clocks never
    static WALL_SKEW_NS: Cell<i128> = const { Cell::new(0) };
    static CLOCK_SKEW_NS: Cell<i128> = const { Cell::new(0) };
    static CLOCK_READS: Cell<u64> = const { Cell::new(0) };
}

#[repr(C)]
pub struct Timespec {
    tv_sec: i64,
    tv_nsec: i64,
}

/// # Safety
/// libc contract of clock_gettime(2)
#[no_mangle]
pub unsafe extern "C" fn clock_gettime(clk: i32, ts: *mut Timespec) -> i32 {
    static REAL: std::sync::atomic::AtomicUsize = std::sync::atomic::AtomicUsize::new(0);
    let mut real = REAL.load(std::sync::atomic::Ordering::Relaxed);
    if real == 0 {
        real = dlsym(usize::MAX as *mut c_void, c"clock_gettime".as_ptr()) as usize;
        REAL.store(real, std::sync::atomic::Ordering::Relaxed);
    }
    if real == 0 {
        return -1;
    }
    let f: unsafe extern "C" fn(i32, *mut Timespec) -> i32 = std::mem::transmute(real);
    let rc = f(clk, ts);
    // wall clocks and monotonic clocks of every flavour; CPU-time clocks (2, 3) are left alone
    if rc == 0 && !ts.is_null() && matches!(clk, 0 | 1 | 4 | 5 | 6 | 7) {
        let on_replica = ENTROPY.try_with(|e| e.get().is_some()).unwrap_or(false);
        if on_replica {
            let _ = CLOCK_READS.try_with(|c| c.set(c.get() + 1));
            let mut skew = CLOCK_SKEW_NS.try_with(|c| c.get()).unwrap_or(0);
            if matches!(clk, 0 | 5) {
                skew += WALL_SKEW_NS.try_with(|c| c.get()).unwrap_or(0);
            }
            if skew != 0 {
                let total = (*ts).tv_sec as i128 * 1_000_000_000 + (*ts).tv_nsec as i128 + skew;
                (*ts).tv_sec = (total / 1_000_000_000) as i64;
                (*ts).tv_nsec = (total % 1_000_000_000) as i64;
            }
        }
    }
    rc
}

/// simulated time passes on this thread (called by a slow byte source)
pub fn advance_clock(secs: u64) {
    CLOCK_SKEW_NS.with(|c| c.set(c.get() + secs as i128 * 1_000_000_000));
}

/// the wall clock of this thread is stepped back (an NTP correction, a VM resume); monotonic time is untouched
pub fn step_wall_clock_back(secs: u64) {
    WALL_SKEW_NS.with(|c| c.set(c.get() - secs as i128 * 1_000_000_000));
}

/// how often the code running on this thread read a clock
pub fn clock_reads() -> u64 {
    CLOCK_READS.with(|c| c.get())
}

/// names of environment variables the code under test asked for on this thread
pub fn env_seen() -> Vec<String> {
    ENV_SEEN.with(|s| s.borrow().clone())
}

#[cfg(target_arch = "x86_64")]
const SYS_GETRANDOM: c_long = 318;
#[cfg(target_arch = "aarch64")]
const SYS_GETRANDOM: c_long = 278;

thread_local! {
    static ENTROPY: Cell<Option<u128>> = const { Cell::new(None) };
    static CALLS: Cell<u64> = const { Cell::new(0) };
}

/// # Safety
/// libc contract of getrandom(2): `buf` points to `len` writable bytes.
#[no_mangle]
pub unsafe extern "C" fn getrandom(buf: *mut c_void, len: usize, flags: c_uint) -> isize {
    let e = ENTROPY.try_with(|e| e.get()).unwrap_or(None);
    match e {
        Some(v) => {
            let _ = CALLS.try_with(|c| c.set(c.get() + 1));
            let src = v.to_le_bytes();
            let out = buf as *mut u8;
            for i in 0..len {
                // repeat the 16 bytes if more are requested; each further block is perturbed by its index
                let b = src[i % 16] ^ ((i / 16) as u8).wrapping_mul(0x9d);
                *out.add(i) = b;
            }
            len as isize
        }
        None => syscall(SYS_GETRANDOM, buf, len, flags) as isize,
    }
}

/// Run `f` on a fresh thread whose `RandomState` keys derive from `entropy`.
/// Returns `Err(payload)` if the thread panicked outside of `f`'s own `catch_unwind`s.
pub fn with_entropy<T: Send + 'static>(entropy: u128, f: impl FnOnce() -> T + Send + 'static) -> Result<(T, u64), String> {
    with_env(entropy, false, f).map(|(r, c, _)| (r, c))
}

/// like `with_entropy`; with `env_override` the thread also sees a populated environment (ENV_TABLE).
/// Returns the result, the number of getrandom calls and the environment variable names that were read.
pub fn with_env<T: Send + 'static>(
    entropy: u128,
    env_override: bool,
    f: impl FnOnce() -> T + Send + 'static,
) -> Result<(T, u64, Vec<String>), String> {
    let h = spawn_env(entropy, env_override, None, f)?;
    h.join().map_err(|p| crate::panic_text(&p))
}

pub type ParkPair = (std::sync::mpsc::Sender<()>, std::sync::mpsc::Receiver<()>);

/// the spawning half of `with_env`; `park` installs the interleaving channel pair (see simreader::PARK)
pub fn spawn_env<T: Send + 'static>(
    entropy: u128,
    env_override: bool,
    park: Option<ParkPair>,
    f: impl FnOnce() -> T + Send + 'static,
) -> Result<std::thread::JoinHandle<(T, u64, Vec<String>)>, String> {
    let h = std::thread::Builder::new()
        .name("replica".into())
        .spawn(move || {
            ENTROPY.with(|e| e.set(Some(entropy)));
            ENV_OVERRIDE.with(|o| o.set(env_override));
            if let Some(p) = park {
                crate::simreader::PARK.with(|c| *c.borrow_mut() = Some(p));
            }
            // heap perturbation: a replica-specific pattern of live allocations, so that twins with different
            // entropy also see different allocation addresses (not controlled, only varied; C05 names them)
            let mut pad: Vec<Vec<u8>> = Vec::new();
            let mut x = entropy as u64 | 1;
            for _ in 0..((entropy >> 64) as u64 % 7) {
                x ^= x << 13;
                x ^= x >> 7;
                x ^= x << 17;
                pad.push(vec![0u8; 16 + (x % 4000) as usize]);
            }
            let r = f();
            drop(pad);
            let calls = CALLS.with(|c| c.get());
            (r, calls, env_seen())
        })
        .map_err(|e| format!("spawn failed: {e}"))?;
    Ok(h)
}

/// Seam-liveness canary: equal entropy ⇒ identical HashMap iteration order; over 16 entropies at least
/// two different orders appear; exactly one getrandom call per fresh thread.
pub fn canary() -> Result<String, String> {
    fn order() -> Vec<u32> {
        let mut m = std::collections::HashMap::new();
        for k in 0..5u32 {
            m.insert(format!("key{k}"), k);
        }
        m.values().copied().collect()
    }
    let mut orders: Vec<Vec<u32>> = Vec::new();
    for i in 0..16u128 {
        let e = 0x1234_5678_9abc_def0_u128.wrapping_mul(i + 1) ^ (i << 100);
        let (a, ca) = with_entropy(e, order)?;
        let (b, cb) = with_entropy(e, order)?;
        if a != b {
            return Err(format!("entropy seam dead: same entropy gave orders {a:?} and {b:?}"));
        }
        if ca != 1 || cb != 1 {
            return Err(format!("entropy seam: expected 1 getrandom call per fresh thread, saw {ca}/{cb}"));
        }
        if !orders.contains(&a) {
            orders.push(a);
        }
    }
    if orders.len() < 2 {
        return Err("entropy seam dead: 16 entropies gave a single HashMap order".into());
    }
    // clock seam: simulated time must be what Instant and SystemTime see on a replica thread, and only there
    let (jump, _) = with_entropy(7, || {
        let a = std::time::Instant::now();
        let w = std::time::SystemTime::now();
        advance_clock(3_600);
        (a.elapsed().as_secs(), w.elapsed().map(|d| d.as_secs()).unwrap_or(0))
    })?;
    if jump.0 < 3_600 || jump.0 > 3_700 || jump.1 < 3_600 {
        return Err(format!("clock seam dead: after advancing simulated time by 3600 s the thread saw {jump:?} s"));
    }
    let here = std::time::Instant::now();
    if here.elapsed().as_secs() > 60 {
        return Err("clock seam leaks into the harness thread".into());
    }
    Ok(format!("live: {} distinct 5-key orders over 16 entropies, 1 getrandom call per thread; simulated clock visible to Instant and SystemTime", orders.len()))
}
