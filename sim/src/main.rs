//! xsg-sim — deterministic simulation with fault injection for xml_schema_generator.
//! See /verif/DESIGN.md. Commands: check, worker, shrink, replay, selfcheck, show.

mod cli;
mod dom;
mod driver;
mod entropy;
mod json;
mod model;
mod mutate;
mod observe;
mod props;
mod rng;
mod schema;
mod session;
mod shrink;
mod simreader;
mod verdict;

pub fn panic_text(p: &Box<dyn std::any::Any + Send>) -> String {
    if let Some(s) = p.downcast_ref::<&str>() {
        s.to_string()
    } else if let Some(s) = p.downcast_ref::<String>() {
        s.clone()
    } else {
        "<non-string panic payload>".to_string()
    }
}

/// Panics inside the code under test are caught and reported by the harness; keep stderr clean unless asked.
pub fn quiet_panics() {
    if std::env::var("XSG_PANIC").is_err() {
        std::panic::set_hook(Box::new(|_| {}));
    }
}

fn main() {
    let args: Vec<String> = std::env::args().collect();
    let code = driver::main(&args);
    std::process::exit(code);
}
