//! xsg-sim — deterministic simulation with fault injection for xml_schema_generator.
//! See /verif/DESIGN.md. Commands: check, worker, shrink, replay, selfcheck, show.

mod cli;
mod dom;
mod driver;
mod entropy;
mod json;
mod model;
mod mutate;
mod observe;
mod props;
mod rng;
mod schema;
mod session;
mod shrink;
mod simreader;
mod verdict;

pub fn panic_text(p: &Box<dyn std::any::Any + Send>) -> String {
    if let Some(s) = p.downcast_ref::<&str>() {
        s.to_string()
    } else if let Some(s) = p.downcast_ref::<String>() {
        s.clone()
    } else {
        "<non-string panic payload>".to_string()
    }
}

/// Panics inside the code under test are caught and reported by the harness; keep stderr clean unless asked.
pub fn quiet_panics() {
    if std::env::var("XSG_PANIC").is_err() {
        std::panic::set_hook(Box::new(|_| {}));
    }
}

/// A logger that accepts everything and writes nothing. Whether the *level* lets records through is part of
/// the simulated environment: replicas whose role starts with "logging" run with the maximum level at Trace,
/// all others with logging off (the state of every unit test and of the default CLI build).
struct NoopLogger;
impl log::Log for NoopLogger {
    fn enabled(&self, _: &log::Metadata) -> bool {
        true
    }
    fn log(&self, record: &log::Record) {
        // format the message like a real logger would (so that argument evaluation happens), then drop it
        let _ = format!("{}", record.args());
    }
    fn flush(&self) {}
}
static LOGGER: NoopLogger = NoopLogger;

pub fn set_logging(on: bool) {
    log::set_max_level(if on { log::LevelFilter::Trace } else { log::LevelFilter::Off });
}

fn main() {
    let _ = log::set_logger(&LOGGER);
    set_logging(false);
    let args: Vec<String> = std::env::args().collect();
    let code = driver::main(&args);
    std::process::exit(code);
}
