//! Seam S3: a *session* is a logical workload (documents with a common root) delivered to one or more
//! replicas, each of which owns an `Option<Element<String>>` and drives only the public API. Replicas
//! differ in environment: entropy (S1), reader plan and configuration (S2), delivery order, repetition,
//! interleaved empty inputs and failing deliveries (S3). A session is fully explicit, so it is its own
//! replay file.

use std::io::BufReader;
use std::panic::{catch_unwind, AssertUnwindSafe};

use quick_xml::events::attributes::AttrError;
use quick_xml::reader::Reader;
use xml_schema_generator::{extend_struct, into_struct, Element, Options, ParserError, SortBy};

use crate::dom::Doc;
use crate::json::{bytes_j, j_bytes, J};
use crate::observe::{api_dump, observe, Obs};
use crate::rng::Fnv;
use crate::simreader::{Plan, ReadStats, SimReader};

#[derive(Clone, Debug, PartialEq)]
pub enum Input {
    /// logical document `docs[i]`
    Doc(usize),
    /// its rewritten twin `alts[i]` (same structure, different incidental detail)
    Alt(usize),
    /// literal bytes (empty / element-less inputs, corrupted copies)
    Raw(Vec<u8>),
}

#[derive(Clone, Debug, PartialEq)]
pub struct Step {
    pub input: Input,
    pub plan: Plan,
    /// reader configuration bits, see `apply_cfg`
    pub cfg: u16,
}

#[derive(Clone, Debug, PartialEq)]
pub struct Replica {
    pub role: String,
    pub entropy: u128,
    pub steps: Vec<Step>,
    /// deliveries executed on the replica's thread *before* its history starts, each on a tree of its own that
    /// is thrown away: a "veteran" thread. Nothing they do may leak into the replica's own results.
    pub warmup: Vec<Step>,
}

#[derive(Clone, Debug, PartialEq)]
pub struct RenderOpt {
    pub serde_xml_rs: bool,
    pub by_name: bool,
    pub derive: String,
    /// override of `Options::attribute_prefix` / `Options::text_identifier` (public fields a caller may set)
    pub attribute_prefix: Option<String>,
    pub text_identifier: Option<String>,
}

impl RenderOpt {
    pub fn options(&self) -> Options {
        let mut o = if self.serde_xml_rs { Options::serde_xml_rs() } else { Options::quick_xml_de() };
        o = o.derive(&self.derive);
        o.sort = if self.by_name { SortBy::XmlName } else { SortBy::Unsorted };
        if let Some(p) = &self.attribute_prefix {
            o.attribute_prefix = p.clone();
        }
        if let Some(t) = &self.text_identifier {
            o.text_identifier = t.clone();
        }
        o
    }
    pub fn preset(serde_xml_rs: bool, by_name: bool, derive: &str) -> RenderOpt {
        RenderOpt { serde_xml_rs, by_name, derive: derive.to_string(), attribute_prefix: None, text_identifier: None }
    }
    pub fn to_j(&self) -> J {
        let mut j = J::obj()
            .set("preset", J::s(if self.serde_xml_rs { "serde_xml_rs" } else { "quick_xml_de" }))
            .set("sort", J::s(if self.by_name { "name" } else { "unsorted" }))
            .set("derive", J::s(&self.derive));
        if let Some(p) = &self.attribute_prefix {
            j.put("attribute_prefix", J::s(p));
        }
        if let Some(t) = &self.text_identifier {
            j.put("text_identifier", J::s(t));
        }
        j
    }
    pub fn from_j(j: &J) -> Result<RenderOpt, String> {
        Ok(RenderOpt {
            serde_xml_rs: j.str_of("preset")? == "serde_xml_rs",
            by_name: j.str_of("sort")? == "name",
            derive: j.str_of("derive")?,
            attribute_prefix: j.str_of("attribute_prefix").ok(),
            text_identifier: j.str_of("text_identifier").ok(),
        })
    }
}

#[derive(Clone, Debug, PartialEq)]
pub struct Session {
    pub docs: Vec<Doc>,
    pub alts: Vec<Option<Doc>>,
    pub replicas: Vec<Replica>,
    pub opts: Vec<RenderOpt>,
}

pub const CFG_EXPAND_EMPTY: u16 = 1;
pub const CFG_TRIM_START: u16 = 2;
pub const CFG_TRIM_END: u16 = 4;
pub const CFG_NO_CHECK_END: u16 = 8;
pub const CFG_ALLOW_UNMATCHED: u16 = 16;
pub const CFG_CHECK_COMMENTS: u16 = 32;
pub const CFG_NO_TRIM_CLOSING: u16 = 64;
pub const CFG_ALL: u16 = 127;
/// bits 8..=10 of a step's cfg: how many events the *caller* reads from the reader before handing it over
/// (an application that skips the prolog or an envelope element itself)
/// after a failed call the caller carries on with the *same* reader (same kind of call, same tree), up to three more
/// times while the calls keep failing; the outcome of the step is that of the last call
pub const CFG_CARRY_ON: u16 = 1 << 11;
pub const CFG_PRECONSUME_SHIFT: u16 = 8;
pub const CFG_PRECONSUME_MASK: u16 = 7 << 8;

pub fn preconsume<R: std::io::BufRead>(r: &mut Reader<R>, cfg: u16) {
    let n = (cfg & CFG_PRECONSUME_MASK) >> CFG_PRECONSUME_SHIFT;
    let mut buf = Vec::new();
    for _ in 0..n {
        match r.read_event_into(&mut buf) {
            Ok(quick_xml::events::Event::Eof) | Err(_) => break,
            Ok(_) => {}
        }
        buf.clear();
    }
}

pub fn apply_cfg<R>(r: &mut Reader<R>, cfg: u16) {
    let c = r.config_mut();
    if cfg & CFG_EXPAND_EMPTY != 0 {
        c.expand_empty_elements = true;
    }
    if cfg & CFG_TRIM_START != 0 {
        c.trim_text_start = true;
    }
    if cfg & CFG_TRIM_END != 0 {
        c.trim_text_end = true;
    }
    if cfg & CFG_NO_CHECK_END != 0 {
        c.check_end_names = false;
    }
    if cfg & CFG_ALLOW_UNMATCHED != 0 {
        c.allow_unmatched_ends = true;
    }
    if cfg & CFG_CHECK_COMMENTS != 0 {
        c.check_comments = true;
    }
    if cfg & CFG_NO_TRIM_CLOSING != 0 {
        c.trim_markup_names_in_closing_tags = false;
    }
}

impl Session {
    pub fn bytes_of(&self, input: &Input) -> Vec<u8> {
        match input {
            Input::Doc(i) => self.docs[*i].ser(),
            Input::Alt(i) => match &self.alts[*i] {
                Some(d) => d.ser(),
                None => self.docs[*i].ser(),
            },
            Input::Raw(b) => b.clone(),
        }
    }

    pub fn to_j(&self) -> J {
        let mut o = J::obj();
        o.put("docs", J::Arr(self.docs.iter().map(|d| d.to_j()).collect()));
        if self.alts.iter().any(|a| a.is_some()) {
            o.put("alts", J::Arr(self.alts.iter().map(|a| a.as_ref().map(|d| d.to_j()).unwrap_or(J::Null)).collect()));
        }
        o.put("opts", J::Arr(self.opts.iter().map(|r| r.to_j()).collect()));
        o.put(
            "replicas",
            J::Arr(
                self.replicas
                    .iter()
                    .map(|r| {
                        let step_j = |s: &Step| {
                            let mut j = J::obj();
                            match &s.input {
                                Input::Doc(i) => j.put("doc", J::Int(*i as i64)),
                                Input::Alt(i) => j.put("alt", J::Int(*i as i64)),
                                Input::Raw(b) => j.put("raw", bytes_j(b)),
                            }
                            j.put("plan", s.plan.to_j());
                            j.put("cfg", J::Int(s.cfg as i64));
                            j
                        };
                        let mut o = J::obj().set("role", J::s(&r.role)).set("entropy", J::s(format!("{:032x}", r.entropy)));
                        if !r.warmup.is_empty() {
                            o.put("warmup", J::Arr(r.warmup.iter().map(step_j).collect()));
                        }
                        o.set("steps", J::Arr(r.steps.iter().map(step_j).collect()))
                    })
                    .collect(),
            ),
        );
        o
    }

    pub fn from_j(j: &J) -> Result<Session, String> {
        let mut s = Session { docs: vec![], alts: vec![], replicas: vec![], opts: vec![] };
        for d in j.arr_of("docs")? {
            s.docs.push(Doc::from_j(d)?);
        }
        if let Some(J::Arr(a)) = j.get("alts") {
            for d in a {
                s.alts.push(if *d == J::Null { None } else { Some(Doc::from_j(d)?) });
            }
        } else {
            s.alts = vec![None; s.docs.len()];
        }
        for o in j.arr_of("opts")? {
            s.opts.push(RenderOpt::from_j(o)?);
        }
        for r in j.arr_of("replicas")? {
            let step_of = |st: &J| -> Result<Step, String> {
                let input = if let Some(J::Int(i)) = st.get("doc") {
                    Input::Doc(*i as usize)
                } else if let Some(J::Int(i)) = st.get("alt") {
                    Input::Alt(*i as usize)
                } else {
                    Input::Raw(j_bytes(st.get("raw").ok_or("step without input")?)?)
                };
                Ok(Step { input, plan: Plan::from_j(st.get("plan").ok_or("step without plan")?)?, cfg: st.int_of("cfg")? as u16 })
            };
            let mut rep = Replica {
                role: r.str_of("role")?,
                entropy: u128::from_str_radix(&r.str_of("entropy")?, 16).map_err(|e| e.to_string())?,
                steps: vec![],
                warmup: vec![],
            };
            for st in r.arr_of("steps")? {
                rep.steps.push(step_of(st)?);
            }
            if let Some(J::Arr(w)) = r.get("warmup") {
                for st in w {
                    rep.warmup.push(step_of(st)?);
                }
            }
            s.replicas.push(rep);
        }
        Ok(s)
    }
}

// ---------------------------------------------------------------------------------------------
// execution
// ---------------------------------------------------------------------------------------------

#[derive(Clone, Debug)]
pub struct ErrObs {
    pub variant: &'static str,
    pub pos: Option<u64>,
    /// `{:?}` of the inner quick_xml::Error for QuickXmlError
    pub inner_dbg: String,
    pub attr: Option<AttrError>,
    pub utf8: Option<Vec<u8>>,
    pub display: String,
}

pub fn err_obs(e: &ParserError) -> ErrObs {
    let display = format!("{e}");
    match e {
        ParserError::QuickXmlError(p, q) => {
            ErrObs { variant: "QuickXmlError", pos: Some(*p), inner_dbg: format!("{q:?}"), attr: None, utf8: None, display }
        }
        ParserError::FromUtf8Error(u) => {
            ErrObs { variant: "FromUtf8Error", pos: None, inner_dbg: String::new(), attr: None, utf8: Some(u.as_bytes().to_vec()), display }
        }
        ParserError::AttrError(a) => {
            ErrObs { variant: "AttrError", pos: None, inner_dbg: String::new(), attr: Some(a.clone()), utf8: None, display }
        }
        ParserError::ParsingError(_) => ErrObs { variant: "ParsingError", pos: None, inner_dbg: String::new(), attr: None, utf8: None, display },
        // a variant added by a future version must not break the harness build
        #[allow(unreachable_patterns)]
        _ => ErrObs { variant: "OtherVariant", pos: None, inner_dbg: String::new(), attr: None, utf8: None, display },
    }
}

pub enum Delivered {
    Ok(Element<String>),
    Err(ErrObs),
    Panic(String),
}

/// One delivery through the chosen reader stack. `prev` = None ⇒ `into_struct`, else `extend_struct`.
/// one library call on a reader of whatever type
trait DynCall {
    fn call(&mut self, prev: Option<Element<String>>) -> Result<Element<String>, ParserError>;
}
impl<R: std::io::BufRead> DynCall for Reader<R> {
    fn call(&mut self, prev: Option<Element<String>>) -> Result<Element<String>, ParserError> {
        match prev {
            None => into_struct(self),
            Some(t) => extend_struct(self, t),
        }
    }
}

pub fn deliver(prev: Option<Element<String>>, bytes: &[u8], plan: &Plan, cfg: u16) -> (Delivered, ReadStats, u64) {
    let mut stats = ReadStats::default();
    let mut rlog = 0u64;
    let r = catch_unwind(AssertUnwindSafe(|| {
        let carry_on = cfg & CFG_CARRY_ON != 0;
        let go = move |prev: Option<Element<String>>, reader: &mut dyn DynCall| -> Result<Element<String>, ParserError> {
            if !carry_on {
                return reader.call(prev);
            }
            let mut last = reader.call(prev.clone());
            for _ in 0..3 {
                if last.is_ok() {
                    break;
                }
                last = reader.call(prev.clone());
            }
            last
        };
        if plan.slice {
            let mut reader = Reader::from_reader(bytes);
            apply_cfg(&mut reader, cfg);
            preconsume(&mut reader, cfg);
            go(prev, &mut reader)
        } else if plan.bufreader_cap > 0 {
            let sim = SimReader::new(bytes, plan);
            let mut reader = Reader::from_reader(BufReader::with_capacity(plan.bufreader_cap, sim));
            apply_cfg(&mut reader, cfg);
            preconsume(&mut reader, cfg);
            let r = go(prev, &mut reader);
            let sim = reader.into_inner().into_inner();
            stats = sim.stats.clone();
            rlog = sim.log.0;
            r
        } else {
            let sim = SimReader::new(bytes, plan);
            let mut reader = Reader::from_reader(sim);
            apply_cfg(&mut reader, cfg);
            preconsume(&mut reader, cfg);
            let r = go(prev, &mut reader);
            let sim = reader.into_inner();
            stats = sim.stats.clone();
            rlog = sim.log.0;
            r
        }
    }));
    let d = match r {
        Ok(Ok(t)) => Delivered::Ok(t),
        Ok(Err(e)) => Delivered::Err(err_obs(&e)),
        Err(p) => Delivered::Panic(crate::panic_text(&p)),
    };
    (d, stats, rlog)
}

#[derive(Clone, Debug, Default)]
pub struct Want {
    /// render with every `session.opts` entry after every step
    pub renders: bool,
    /// render a second time on the same thread (std bumps the hash key per map)
    pub render_twice: bool,
    /// observe through the public API (unsorted rendering)
    pub obs: bool,
    /// also observe with sort-by-name rendering (C09 only: it doubles the cost)
    pub obs_sorted: bool,
}

#[derive(Clone, Debug)]
pub struct StepOut {
    pub ok: bool,
    pub err: Option<ErrObs>,
    pub panic: Option<String>,
    pub has_tree: bool,
    pub api: String,
    pub renders: Vec<String>,
    pub renders2: Vec<String>,
    pub obs: Option<Result<Obs, String>>,
    /// the same observation with sort-by-name rendering
    pub obs_sorted: Option<Result<Obs, String>>,
    pub stats: ReadStats,
    pub rlog: u64,
}

#[derive(Clone, Debug)]
pub struct ReplicaOut {
    pub steps: Vec<StepOut>,
    pub getrandom_calls: u64,
    /// environment variables the code under test read on this replica's thread
    pub env_read: Vec<String>,
}

fn run_replica_here(session: &Session, r: &Replica, want: &Want) -> Vec<StepOut> {
    run_warmup(session, r);
    run_steps(session, r, want, None, 0, r.steps.len()).0
}

/// `…+weathered<N>`: the replica's thread has been through its warm-up deliveries N times over (a long-running worker
/// that has seen hundreds or thousands of failed documents before this history starts)
pub fn weathered(role: &str) -> usize {
    role.rsplit_once("+weathered").and_then(|(_, n)| n.parse().ok()).unwrap_or(1)
}

fn run_warmup(session: &Session, r: &Replica) {
    // veteran thread: earlier, unrelated work on this thread (results discarded)
    let mut junk: Option<Element<String>> = None;
    let reps = weathered(&r.role).max(1);
    for st in r.warmup.iter().cycle().take(r.warmup.len() * reps) {
        let bytes = session.bytes_of(&st.input);
        let keep = junk.clone();
        let (d, _, _) = deliver(junk.take(), &bytes, &st.plan, st.cfg);
        junk = match d {
            Delivered::Ok(t) => {
                // rendered with both presets and both sort orders, like an application with several outputs would
                let _ = catch_unwind(AssertUnwindSafe(|| {
                    let mut o = Options::serde_xml_rs();
                    o.sort = SortBy::XmlName;
                    // the order of the renderings varies with the input (what was rendered first is state, too)
                    if bytes.len() % 2 == 0 {
                        (t.to_serde_struct(&Options::serde_xml_rs()), t.to_serde_struct(&o), t.to_serde_struct(&Options::quick_xml_de()))
                    } else {
                        (t.to_serde_struct(&Options::quick_xml_de()), t.to_serde_struct(&Options::serde_xml_rs()), t.to_serde_struct(&o))
                    }
                }));
                Some(t)
            }
            _ => keep,
        };
    }
    drop(junk);
}

/// steps[from..to] of the replica's history, starting from `tree`; returns what was observed and the tree
fn run_steps(session: &Session, r: &Replica, want: &Want, tree: Option<Element<String>>, from: usize, to: usize) -> (Vec<StepOut>, Option<Element<String>>) {
    let mut tree = tree;
    let mut outs = Vec::new();
    // `lazy-`: a caller that renders only once, at the end of the history (no intermediate renderings)
    // `restarting-`: a caller that parses every document into a fresh tree (same variable reused in a loop)
    let lazy = r.role.contains("lazy-");
    let restarting = r.role.contains("restarting-");
    let probing = r.role.contains("probing-");
    let revopts = r.role.contains("revopts-");
    for (k, st) in r.steps[from..to].iter().enumerate() {
        let last = from + k + 1 == r.steps.len();
        if restarting {
            tree = None;
        }
        let bytes = session.bytes_of(&st.input);
        if probing {
            // "validate, then merge": the caller first parses the document on its own (another tree, same thread)
            let _ = catch_unwind(AssertUnwindSafe(|| {
                let mut r = Reader::from_reader(&bytes[..]);
                into_struct(&mut r).map(|t| t.to_serde_struct(&Options::quick_xml_de()))
            }));
        }
        // the client keeps its pre-operation clone: extend_struct consumes the tree
        let keep = tree.clone();
        let (d, stats, rlog) = deliver(tree.take(), &bytes, &st.plan, st.cfg);
        let mut out = StepOut {
            ok: false,
            err: None,
            panic: None,
            has_tree: false,
            api: String::new(),
            renders: vec![],
            renders2: vec![],
            obs: None,
            obs_sorted: None,
            stats,
            rlog,
        };
        match d {
            Delivered::Ok(t) => {
                out.ok = true;
                tree = Some(t);
            }
            Delivered::Err(e) => {
                out.err = Some(e);
                tree = keep;
            }
            Delivered::Panic(p) => {
                out.panic = Some(p);
                tree = keep;
            }
        }
        if let Some(t) = &tree {
            out.has_tree = true;
        }
        if let (Some(t), true) = (&tree, !lazy || last) {
            let r = catch_unwind(AssertUnwindSafe(|| {
                let mut api = String::new();
                api_dump(t, &mut api);
                let mut renders = vec![];
                let mut renders2 = vec![];
                if want.renders {
                    if revopts {
                        // the same renderings, requested in the opposite order (what was rendered before is state, too)
                        let mut tmp: Vec<String> = session.opts.iter().rev().map(|o| t.to_serde_struct(&o.options())).collect();
                        tmp.reverse();
                        renders = tmp;
                    } else {
                        for o in &session.opts {
                            renders.push(t.to_serde_struct(&o.options()));
                        }
                    }
                    if want.render_twice {
                        for o in &session.opts {
                            renders2.push(t.to_serde_struct(&o.options()));
                        }
                    }
                }
                let obs = if want.obs { Some(observe(t, true, SortBy::Unsorted)) } else { None };
                let obs_sorted = if want.obs_sorted { Some(observe(t, true, SortBy::XmlName)) } else { None };
                (api, renders, renders2, obs, obs_sorted)
            }));
            match r {
                Ok((api, renders, renders2, obs, obs_sorted)) => {
                    out.api = api;
                    out.renders = renders;
                    out.renders2 = renders2;
                    out.obs = obs;
                    out.obs_sorted = obs_sorted;
                }
                Err(p) => out.panic = Some(format!("while rendering: {}", crate::panic_text(&p))),
            }
        }
        outs.push(out);
    }
    (outs, tree)
}

/// Run every replica of the session, each on a fresh thread with its own entropy, one at a time.
fn run_one_replica(shared: &std::sync::Arc<Session>, i: usize, want: &Want) -> Result<ReplicaOut, String> {
    let session: &Session = shared;
    let s = shared.clone();
    let w = want.clone();
    let e = session.replicas[i].entropy;
    let role = &session.replicas[i].role;
    // roles containing "env-" run with a populated environment
    let env_on = role.contains("env-");
    let (steps, calls, env_read) = if role.contains("migrating") {
        // the tree is `Send`: every delivery of this replica runs on another fresh thread (own entropy, own
        // thread-locals), the tree travelling from thread to thread like a value handed between workers
        let mut tree: Option<Element<String>> = None;
        let mut all = Vec::new();
        let mut calls = 0;
        let mut env_read: Vec<String> = Vec::new();
        for k in 0..session.replicas[i].steps.len() {
            let s2 = s.clone();
            let w2 = w.clone();
            let t = tree.take();
            let ek = e ^ ((k as u128 + 1) * 0x9E37_79B9_7F4A_7C15);
            let ((mut outs, t2), c, er) = crate::entropy::with_env(ek, env_on, move || {
                if k == 0 {
                    run_warmup(&s2, &s2.replicas[i]);
                }
                run_steps(&s2, &s2.replicas[i], &w2, t, k, k + 1)
            })?;
            tree = t2;
            all.append(&mut outs);
            calls += c;
            for n in er {
                if !env_read.contains(&n) {
                    env_read.push(n);
                }
            }
        }
        (all, calls, env_read)
    } else {
        crate::entropy::with_env(e, env_on, move || run_replica_here(&s, &s.replicas[i], &w))?
    };
    Ok(ReplicaOut { steps, getrandom_calls: calls, env_read })
}

/// the nested library call a re-entrant byte source makes (see simreader::NESTED_CALL): a small document is
/// parsed, extended and rendered; a panic in it propagates through `fill_buf` into the outer call
fn nested_library_call() {
    let mut r = Reader::from_str("<inc a=\"1\"><k>t</k><k/><m x=\"2\"/></inc>");
    if let Ok(t) = into_struct(&mut r) {
        let mut r2 = Reader::from_str("<inc b=\"1\"><m/><n/></inc>");
        if let Ok(t) = extend_struct(&mut r2, t) {
            let _ = t.to_serde_struct(&Options::quick_xml_de());
        }
    }
}

/// Run every replica of the session, each on a fresh thread with its own entropy. Replicas run one at a time,
/// except where a replica's plan has a park point: that replica stops inside its reader at the chosen call, the
/// next replica runs to completion meanwhile, then the parked one is released - a deterministic interleaving
/// of two parses that are in flight in the same process.
pub fn run_session(session: &Session, want: &Want) -> Result<Vec<ReplicaOut>, String> {
    let _ = crate::simreader::NESTED_CALL.set(nested_library_call);
    let n = session.replicas.len();
    let mut outs: Vec<Option<ReplicaOut>> = (0..n).map(|_| None).collect();
    let shared = std::sync::Arc::new(session.clone());
    let mut i = 0;
    while i < n {
        let r = &session.replicas[i];
        let parks = i + 1 < n && !r.role.contains("migrating") && r.steps.iter().any(|st| !st.plan.slice && st.plan.park_at.is_some());
        // the process-global log level is part of the replica's environment (of both replicas while two are in flight)
        let log_on = r.role.contains("logging") || (parks && session.replicas[i + 1].role.contains("logging"));
        crate::set_logging(log_on);
        if !parks {
            outs[i] = Some(run_one_replica(&shared, i, want)?);
            crate::set_logging(false);
            i += 1;
            continue;
        }
        let (parked_tx, parked_rx) = std::sync::mpsc::channel::<()>();
        let (release_tx, release_rx) = std::sync::mpsc::channel::<()>();
        let s = shared.clone();
        let w = want.clone();
        let h = crate::entropy::spawn_env(r.entropy, r.role.contains("env-"), Some((parked_tx, release_rx)), move || run_replica_here(&s, &s.replicas[i], &w))?;
        // wait until the replica is parked or has finished without ever reaching its park point (the sender is
        // dropped with the thread-local when the thread ends, which ends the wait as well)
        let parked = parked_rx.recv().is_ok();
        if parked {
            outs[i + 1] = Some(run_one_replica(&shared, i + 1, want)?);
            let _ = release_tx.send(());
        }
        let (steps, calls, env_read) = h.join().map_err(|p| crate::panic_text(&p))?;
        outs[i] = Some(ReplicaOut { steps, getrandom_calls: calls, env_read });
        crate::set_logging(false);
        i += if parked { 2 } else { 1 };
    }
    Ok(outs.into_iter().map(|o| o.expect("every replica ran")).collect())
}

/// order-sensitive hash of everything observable in a run (determinism check)
pub fn trace_hash(outs: &[ReplicaOut]) -> u64 {
    let mut h = Fnv::new();
    for r in outs {
        h.u64(r.steps.len() as u64);
        for s in &r.steps {
            h.u64(s.ok as u64);
            if let Some(e) = &s.err {
                h.str(e.variant);
                h.u64(e.pos.unwrap_or(u64::MAX));
                h.str(&e.inner_dbg);
                h.str(&e.display);
            }
            if let Some(p) = &s.panic {
                h.str(p);
            }
            h.str(&s.api);
            for r in &s.renders {
                h.str(r);
            }
            for r in &s.renders2 {
                h.str(r);
            }
            if let Some(Err(e)) = &s.obs {
                h.str(e);
            }
            if let Some(Ok(o)) = &s.obs {
                for l in &o.block.lines {
                    h.str(l);
                }
            }
            h.u64(s.stats.fill_calls);
            h.u64(s.rlog);
        }
    }
    h.0
}

/// The independent verdict pass over an identical reader stack and plan (C08 oracle, C06 failure half).
pub fn expected_verdict(bytes: &[u8], plan: &Plan, cfg: u16, initial: bool) -> crate::verdict::Verdict {
    use crate::verdict::{verdict, Verdict};
    fn run<R: std::io::BufRead>(reader: &mut Reader<R>, cfg: u16, initial: bool) -> Verdict {
        apply_cfg(reader, cfg);
        preconsume(reader, cfg);
        let mut v = verdict(reader, initial);
        if cfg & CFG_CARRY_ON != 0 {
            // the caller repeats the call on the same reader while it fails (see `deliver`)
            for _ in 0..3 {
                if v.is_ok() {
                    break;
                }
                v = verdict(reader, initial);
            }
        }
        v
    }
    if plan.slice {
        run(&mut Reader::from_reader(bytes), cfg, initial)
    } else if plan.bufreader_cap > 0 {
        let sim = SimReader::new(bytes, plan);
        run(&mut Reader::from_reader(BufReader::with_capacity(plan.bufreader_cap, sim)), cfg, initial)
    } else {
        let sim = SimReader::new(bytes, plan);
        run(&mut Reader::from_reader(sim), cfg, initial)
    }
}
