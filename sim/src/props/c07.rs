//! C07 — no panic, abort or hang on arbitrary bytes: hostile byte strings delivered through every kind of
//! reader plan (chunking, EINTR, hard I/O errors, truncation), every reader configuration, as parse and
//! parse+extend histories; every Ok result rendered under arbitrary options.
//! Bounded liveness: the simulated reader panics with a marker once its step budget is exceeded.

use super::{add, bump, skip, Ctr, Exec, Prop, Scenario, Violation};
use crate::mutate::{hostile, random_option_string, rough_depth};
use crate::rng::{Fnv, Rng};
use crate::session::{run_session, trace_hash, Input, RenderOpt, Replica, Session, Step, Want, CFG_ALL};
use crate::simreader::{Fault, Plan, BUDGET_MARK};

pub struct C07;

pub fn draw_plan(rng: &mut Rng, bytes: &[u8], p_fault: u32) -> Plan {
    if rng.pct(15) {
        return Plan::slice();
    }
    let mut p = Plan::draw_transparent(rng, bytes);
    if rng.pct(p_fault) {
        p.fault = Plan::draw_fault(rng, bytes);
        p.io_once = rng.pct(30);
    }
    p
}

impl Prop for C07 {
    fn id(&self) -> &'static str {
        "C07"
    }
    fn runs(&self, tier: &str) -> u64 {
        if tier == "thorough" {
            12_000_000
        } else {
            400_000
        }
    }
    fn gen(&self, seed: u64) -> Scenario {
        let mut rng = Rng::new(seed);
        if rng.pct(2) {
            // bounded sweep: one small input, cut (clean EOF) and failed (hard I/O error) at *every* byte offset,
            // each as an initial parse and as an extension of the intact tree
            let (mut bytes, _, _) = hostile(&mut rng);
            bytes.truncate(160);
            let e = rng.u128();
            let mut replicas = Vec::new();
            let chunk = *rng.pick(&[0usize, 1, 3]);
            for at in 0..=bytes.len() {
                for io in [false, true] {
                    let mut p = Plan::whole();
                    if chunk > 0 {
                        p.cuts = (1..bytes.len()).filter(|i| i % chunk == 0).collect();
                    }
                    p.fault = if io { Fault::Io { at, kind: "Other".into() } } else { Fault::Truncate { at } };
                    let good = Step { input: Input::Raw(bytes.clone()), plan: Plan::slice(), cfg: 0 };
                    let bad = Step { input: Input::Raw(bytes.clone()), plan: p, cfg: 0 };
                    replicas.push(Replica { role: format!("{}@{at}", if io { "io" } else { "eof" }), entropy: e, steps: vec![bad.clone(), good, bad], warmup: vec![] });
                }
            }
            let opts = vec![RenderOpt::preset(false, false, "")];
            return Scenario::Session(Session { docs: vec![], alts: vec![], replicas, opts });
        }
        let n = *rng.pick(&[1usize, 1, 2, 2, 3]);
        let mut steps = Vec::new();
        for _ in 0..n {
            let (bytes, _fam, _kinds) = hostile(&mut rng);
            let mut cfg = if rng.pct(40) { 0 } else { (rng.next_u64() as u16) & CFG_ALL };
            if rng.pct(15) {
                // the caller does not give up on the stream after a failed call
                cfg |= crate::session::CFG_CARRY_ON;
            }
            let plan = draw_plan(&mut rng, &bytes, 30);
            steps.push(Step { input: Input::Raw(bytes), plan, cfg });
        }
        let mut opts = vec![RenderOpt::preset(rng.pct(50), rng.pct(50), &random_option_string(&mut rng))];
        opts.push(RenderOpt {
            serde_xml_rs: rng.pct(50),
            by_name: rng.pct(50),
            derive: random_option_string(&mut rng),
            attribute_prefix: Some(random_option_string(&mut rng)),
            text_identifier: Some(random_option_string(&mut rng)),
        });
        let mut replicas = vec![Replica { role: "client".into(), entropy: rng.u128(), steps, warmup: vec![] }];
        if rng.pct(20) {
            super::add_warmup(&mut rng, &mut replicas[0], &[]);
        }
        super::decorate_role(&mut rng, &mut replicas[0]);
        if rng.pct(25) && replicas[0].steps.len() > 1 {
            // same-kind documents parsed one after the other into fresh trees, each rendered
            replicas[0].role = format!("restarting-{}", replicas[0].role);
            if rng.pct(60) {
                // ... that share their root element
                let first = replicas[0].steps[0].clone();
                for st in replicas[0].steps.iter_mut().skip(1) {
                    if let (Input::Raw(a), Input::Raw(b)) = (&first.input, &mut st.input) {
                        let mut v = a.clone();
                        let other = b.clone();
                        crate::mutate::mutate_once(&mut rng, &mut v, &other);
                        *b = v;
                    }
                }
            }
        }
        if rng.pct(15) {
            // a bystander: another caller in the same process parses a small valid document while the client is
            // stopped in the middle of one of its inputs
            let b = crate::mutate::base_document(&mut rng);
            replicas.push(Replica { role: "bystander".into(), entropy: rng.u128(), steps: vec![Step { input: Input::Raw(b), plan: Plan::slice(), cfg: 0 }], warmup: vec![] });
            super::maybe_park(&mut rng, &mut replicas, 100, &|inp| match inp {
                Input::Raw(b) => b.len(),
                _ => 0,
            });
        }
        Scenario::Session(Session { docs: vec![], alts: vec![], replicas, opts })
    }
    fn exec(&self, sc: &Scenario, ctr: &mut Ctr) -> Result<Exec, String> {
        let Scenario::Session(s) = sc else { return Ok(super::skip("not_a_session")) };
        for r in &s.replicas {
            for st in &r.steps {
                if let Input::Raw(b) = &st.input {
                    if rough_depth(b) > 200 {
                        return Ok(skip("depth_over_200"));
                    }
                } else {
                    return Ok(skip("not_a_byte_case"));
                }
            }
        }
        let want = Want { renders: true, render_twice: false, obs: false, obs_sorted: false };
        let outs = run_session(s, &want)?;
        super::count_decorations(s, ctr);
        let trace = trace_hash(&outs);
        let mut violation = None;
        let mut sim_steps = 0;
        let mut fp = Fnv::new();
        let mut env = Fnv::new();
        let mut any_fault = false;
        for (ri, r) in outs.iter().enumerate() {
            for (si, st) in r.steps.iter().enumerate() {
                let step = &s.replicas[ri].steps[si];
                sim_steps += st.stats.fill_calls + 1;
                add(ctr, "fault.eintr", st.stats.eintr_fired);
                add(ctr, "fault.io_error", st.stats.io_fired);
                add(ctr, "fault.truncated_stream", st.stats.truncated);
                if st.stats.eintr_fired + st.stats.io_fired + st.stats.truncated > 0 {
                    any_fault = true;
                }
                if let Fault::Io { kind, .. } = &step.plan.fault {
                    if st.stats.io_fired > 0 {
                        bump(ctr, &format!("fault.io_error.{kind}"));
                    }
                }
                if step.plan.bufreader_cap > 0 {
                    bump(ctr, "fault.bufreader_wrapped_delivery");
                }
                if step.cfg != 0 {
                    bump(ctr, "fault.non_default_reader_config");
                }
                for b in 0..7 {
                    if step.cfg & (1 << b) != 0 {
                        bump(ctr, &format!("config_bit.{b}"));
                    }
                }
                bump(ctr, if st.ok { "outcome.ok" } else { "outcome.err" });
                if let Some(e) = &st.err {
                    bump(ctr, &format!("outcome.err.{}", e.variant));
                }
                if st.has_tree {
                    bump(ctr, "rendered_after_step");
                }
                if let Some(p) = &st.panic {
                    let class = if p.contains(BUDGET_MARK) {
                        "hang_reader_step_budget_exceeded"
                    } else if p.starts_with("while rendering") {
                        "panic_in_render"
                    } else {
                        "panic_in_parse"
                    };
                    violation.get_or_insert(Violation { class: class.into(), detail: format!("step {si}: {p}") });
                }
                fp.bytes(&s.bytes_of(&step.input));
                fp.str(&step.plan.to_j().to_string());
                fp.u64(step.cfg as u64);
                env.u64(
                    (step.plan.cuts.len().min(5) as u64) << 12
                        | (step.plan.eintr.len().min(2) as u64) << 10
                        | (match step.plan.fault {
                            Fault::None => 0u64,
                            Fault::Io { .. } => 1,
                            Fault::Truncate { .. } => 2,
                        }) << 8
                        | step.cfg as u64,
                );
            }
        }
        if s.replicas.len() > 8 {
            bump(ctr, "sweep.every_offset_inputs");
            add(ctr, "sweep.every_offset_replicas", s.replicas.len() as u64);
        }
        let nontrivial = outs.iter().any(|r| r.steps.iter().any(|st| !st.ok || any_fault));
        Ok(Exec { violation, trace, fingerprint: fp.0, nontrivial, sim_steps, discarded: None, shape: 0, env_sig: env.0 })
    }
    fn rule(&self) -> &'static str {
        "a case = 1-3 hostile byte strings (byte-level mutations of generated documents: token insertion, deletion, bit flips, truncation, splices, duplicated regions, invalid UTF-8 inside names/keys/values/text; raw random bytes; markup-alphabet noise; token soup; chains up to depth 200) delivered as parse then extend through a PRNG-drawn reader plan (slice / chunked / adversarial cuts / EINTR bursts / BufReader capacity / hard I/O error or truncation at a chosen offset) under one of the 128 reader configurations, every resulting tree rendered with arbitrary option strings; 2% of cases are bounded sweeps (one input of <= 160 bytes cut by a clean EOF and by a hard I/O error at every byte offset, as initial parse and as extension); distinct = distinct (bytes, plan, config) sequence; non-trivial = some delivery returned Err or some injected fault fired"
    }
    fn real_components(&self) -> Vec<&'static str> {
        vec!["xml_schema_generator", "quick-xml buffered reader", "std BufReader", "process boundary (abort / stack overflow detection by worker death)"]
    }
    fn stub_components(&self) -> Vec<&'static str> {
        vec!["byte source: SimReader (chunks, Interrupted, hard errors, early EOF, step budget instead of a wall clock)", "getrandom(2) per replica thread"]
    }
    fn assumptions(&self) -> Vec<&'static str> {
        vec![
            "inputs whose open-tag depth exceeds 200 are outside the statement and are discarded (counted)",
            "termination is judged in reader steps: more than 64+8*len+#EINTR+1024 fill_buf calls on one delivery counts as a hang",
            "replica threads have std's default 2 MiB stack; the library is built with overflow-checks and debug-assertions on",
        ]
    }
}
