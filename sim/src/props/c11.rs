//! C11 — output depends only on document structure: the same history delivered through other channels
//! (chunking, EINTR, BufReader capacities, expand_empty_elements) and with rewritten incidental detail
//! (values, text, CDATA, comments, PIs, prolog, `<x/>` vs `<x></x>`) renders byte-identically.

use super::{add, all_opts, bump, crosscheck_docs, gen_history, skip, Ctr, Exec, Prop, Scenario, Violation};
use crate::dom::{rewrite, Doc, Elem, GenCfg, Node};
use crate::model::infer;
use crate::rng::{Fnv, Rng};
use crate::session::{run_session, trace_hash, Input, Replica, Session, Step, Want, CFG_EXPAND_EMPTY};
use crate::simreader::{straddles, Plan};

pub struct C11;

fn count_nodes(e: &Elem, f: &dyn Fn(&Node) -> bool) -> usize {
    e.kids.iter().filter(|k| f(k)).count() + e.elems().map(|c| count_nodes(c, f)).sum::<usize>()
}

fn forms(e: &Elem, out: &mut Vec<bool>) {
    if e.kids.is_empty() {
        out.push(e.selfclose);
    }
    for c in e.elems() {
        forms(c, out);
    }
}

/// which incidental rewrites separate two documents of equal structure
pub fn diff_kinds(a: &Doc, b: &Doc) -> Vec<&'static str> {
    let mut v = Vec::new();
    let cnt = |d: &Doc, f: &dyn Fn(&Node) -> bool| count_nodes(&d.root, f);
    if cnt(a, &|n| matches!(n, Node::Comment(_))) != cnt(b, &|n| matches!(n, Node::Comment(_))) {
        v.push("comments_inserted_or_removed");
    }
    if cnt(a, &|n| matches!(n, Node::PI(_))) != cnt(b, &|n| matches!(n, Node::PI(_))) {
        v.push("pis_inserted_or_removed");
    }
    if cnt(a, &|n| matches!(n, Node::CData(_))) != cnt(b, &|n| matches!(n, Node::CData(_))) {
        v.push("text_cdata_swapped");
    }
    fn texts(e: &Elem, out: &mut Vec<String>) {
        for k in &e.kids {
            match k {
                Node::Text(t) => out.push(t.clone()),
                Node::Elem(c) => texts(c, out),
                _ => {}
            }
        }
    }
    let (mut ta, mut tb) = (vec![], vec![]);
    texts(&a.root, &mut ta);
    texts(&b.root, &mut tb);
    if ta != tb {
        v.push("text_replaced");
    }
    fn vals(e: &Elem, out: &mut Vec<(String, u8)>) {
        for a in &e.attrs {
            out.push((a.value.clone(), a.quote));
        }
        for c in e.elems() {
            vals(c, out);
        }
    }
    let (mut va, mut vb) = (vec![], vec![]);
    vals(&a.root, &mut va);
    vals(&b.root, &mut vb);
    if va != vb {
        v.push("attr_value_replaced");
    }
    let (mut fa, mut fb) = (vec![], vec![]);
    forms(&a.root, &mut fa);
    forms(&b.root, &mut fb);
    if fa != fb {
        v.push("empty_form_swapped");
    }
    if a.prolog != b.prolog || a.epilog != b.epilog {
        v.push("prolog_epilog_changed");
    }
    v
}

impl Prop for C11 {
    fn id(&self) -> &'static str {
        "C11"
    }
    fn runs(&self, tier: &str) -> u64 {
        if tier == "thorough" {
            4_000_000
        } else {
            150_000
        }
    }
    fn gen(&self, seed: u64) -> Scenario {
        let mut rng = Rng::new(seed);
        let bias = rng.pct(40);
        let mut cfg = GenCfg::draw(&mut rng, bias);
        let sweep = rng.pct(3);
        if sweep {
            cfg.max_elems = 6;
            cfg.p_comment = 15;
            cfg.p_cdata = 15;
        }
        let deep = !sweep && rng.pct(3);
        let k = if sweep || deep { 1 } else { rng.range(1, 4) };
        let (_sk, mut docs) = gen_history(&mut rng, &cfg, k);
        if deep {
            // a deep chain (60..=200 levels) ending in an empty element: depth-dependent behaviour must not
            // distinguish `<x/>` from `<x></x>` or one buffer size from another
            let depth = rng.range(60, 199);
            let mut cur = Elem::new("x");
            cur.selfclose = rng.pct(50);
            for i in (0..depth).rev() {
                let mut e = Elem::new(&format!("n{}", i % 5));
                e.kids.push(Node::Elem(cur));
                cur = e;
            }
            docs = vec![Doc::plain(cur)];
        }
        if !sweep && !deep && rng.pct(4) {
            // a table: one parent with 33..300 occurrences of the same row element; most rows have the same few
            // children, some are empty (in either spelling), a few carry text - anything that changes its mind after
            // N occurrences, or treats the N-th empty row differently from the first, meets the rewrite and channel twins
            let rows = *rng.pick(&[33usize, 40, 70, 130, 300]);
            let row_name = rng.pick(&cfg.elem_names).clone();
            let cols: Vec<String> = (0..rng.range(1, 3)).map(|_| rng.pick(&cfg.elem_names).clone()).collect();
            let mut table = Elem::new(&docs[0].root.name.clone());
            for i in 0..rows {
                let mut row = Elem::new(&row_name);
                row.selfclose = rng.pct(50);
                if !(i > 0 && rng.pct(12)) {
                    for c in &cols {
                        let mut cell = Elem::new(c);
                        cell.selfclose = rng.pct(50);
                        if rng.pct(40) {
                            cell.kids.push(Node::Text(rng.pick(&["1", "x", "true", " "]).to_string()));
                        }
                        row.kids.push(Node::Elem(cell));
                    }
                }
                table.kids.push(Node::Elem(row));
            }
            let at = rng.below(docs.len());
            docs[at] = Doc::plain(table);
        }
        let mut alts = Vec::new();
        for d in &docs {
            let mut fired = Vec::new();
            alts.push(Some(rewrite(&mut rng, d, &mut fired)));
        }
        let e = rng.u128();
        let base_steps: Vec<Step> = (0..k).map(|i| Step { input: Input::Doc(i), plan: Plan::slice(), cfg: 0 }).collect();
        let mut replicas = vec![Replica { role: "baseline".into(), entropy: e, steps: base_steps, warmup: vec![] }];
        if sweep {
            // bounded sweep: every two-chunk split and byte-at-a-time delivery of one small document
            let b = docs[0].ser();
            for c in 1..b.len().min(400) {
                let mut p = Plan::whole();
                p.cuts = vec![c];
                replicas.push(Replica { role: format!("split@{c}"), entropy: e, steps: vec![Step { input: Input::Doc(0), plan: p, cfg: 0 }], warmup: vec![] });
            }
            let mut p = Plan::whole();
            p.cuts = (1..b.len()).collect();
            replicas.push(Replica { role: "byte-at-a-time".into(), entropy: e, steps: vec![Step { input: Input::Doc(0), plan: p, cfg: 0 }], warmup: vec![] });
        } else {
            // channel twin: same bytes, another channel
            let mut st = Vec::new();
            for i in 0..k {
                let b = docs[i].ser();
                let cfgbits = if rng.pct(40) { CFG_EXPAND_EMPTY } else { 0 };
                st.push(Step { input: Input::Doc(i), plan: Plan::draw_transparent(&mut rng, &b), cfg: cfgbits });
            }
            replicas.push(Replica { role: "channel-twin".into(), entropy: e, steps: st, warmup: vec![] });
            // rewrite twin: same structure, other incidental detail, plain channel
            let st: Vec<Step> = (0..k).map(|i| Step { input: Input::Alt(i), plan: Plan::slice(), cfg: 0 }).collect();
            replicas.push(Replica { role: "rewrite-twin".into(), entropy: e, steps: st, warmup: vec![] });
            // composed twin: rewritten detail through another channel, some deliveries rewritten and some not
            let mut st = Vec::new();
            for i in 0..k {
                let alt = rng.pct(60);
                let b = if alt { alts[i].as_ref().unwrap().ser() } else { docs[i].ser() };
                let cfgbits = if rng.pct(50) { CFG_EXPAND_EMPTY } else { 0 };
                st.push(Step {
                    input: if alt { Input::Alt(i) } else { Input::Doc(i) },
                    plan: Plan::draw_transparent(&mut rng, &b),
                    cfg: cfgbits,
                });
            }
            replicas.push(Replica { role: "composed-twin".into(), entropy: e, steps: st, warmup: vec![] });
        }
        if !sweep {
            for r in replicas.iter_mut().skip(1) {
                if rng.pct(20) {
                    super::add_warmup(&mut rng, r, &docs);
                }
                super::decorate_role(&mut rng, r);
            }
        }
        if !sweep {
            let lens: Vec<usize> = docs.iter().map(|d| d.ser().len()).collect();
            let alens: Vec<usize> = alts.iter().map(|a| a.as_ref().map(|d| d.ser().len()).unwrap_or(0)).collect();
            super::maybe_park(&mut rng, &mut replicas, 10, &|inp| match inp {
                Input::Doc(i) => lens[*i],
                Input::Alt(i) => alens[*i],
                Input::Raw(b) => b.len(),
            });
        }
        let derive = rng.pick(&["Serialize, Deserialize", ""]).to_string();
        Scenario::Session(Session { docs, alts, replicas, opts: all_opts(&derive) })
    }
    fn exec(&self, sc: &Scenario, ctr: &mut Ctr) -> Result<Exec, String> {
        let Scenario::Session(s) = sc else { return Ok(super::skip("not_a_session")) };
        if s.replicas.is_empty() || s.replicas.iter().any(|r| r.steps.len() != s.replicas[0].steps.len()) {
            return Ok(skip("twins_differ_in_length"));
        }
        // every twin must deliver the same logical document at each step, and alts must have the docs' structure
        for r in &s.replicas {
            for (st, b) in r.steps.iter().zip(s.replicas[0].steps.iter()) {
                let idx = |i: &Input| match i {
                    Input::Doc(i) | Input::Alt(i) => Some(*i),
                    Input::Raw(_) => None,
                };
                if idx(&st.input).is_none() || idx(&st.input) != idx(&b.input) {
                    return Ok(skip("twins_deliver_different_documents"));
                }
            }
        }
        for (d, a) in s.docs.iter().zip(s.alts.iter()) {
            if let Some(a) = a {
                if crate::verdict::structure_of(&a.root) != crate::verdict::structure_of(&d.root) {
                    return Ok(skip("rewrite_changed_structure"));
                }
            }
        }
        let mut all: Vec<&Doc> = s.docs.iter().collect();
        all.extend(s.alts.iter().flatten());
        crosscheck_docs(&all)?;

        let want = Want { renders: true, render_twice: false, obs: false, obs_sorted: false };
        let outs = run_session(s, &want)?;
        let trace = trace_hash(&outs);
        let mut violation = None;
        let mut sim_steps = 0;
        let mut straddled = 0u64;
        let mut rewritten = false;
        let mut env = Fnv::new();
        for (ri, r) in outs.iter().enumerate() {
            for (si, st) in r.steps.iter().enumerate() {
                let step = &s.replicas[ri].steps[si];
                sim_steps += st.stats.fill_calls + 1;
                add(ctr, "fault.eintr", st.stats.eintr_fired);
                add(ctr, "fault.chunks_delivered", st.stats.chunks);
                if step.plan.bufreader_cap > 0 {
                    bump(ctr, "fault.bufreader_wrapped_delivery");
                }
                if step.cfg & CFG_EXPAND_EMPTY != 0 {
                    bump(ctr, "fault.expand_empty_elements_delivery");
                }
                let bytes = s.bytes_of(&step.input);
                for (k, n) in straddles(&bytes, &step.plan) {
                    if k != "text" {
                        straddled += n;
                    }
                    add(ctr, &format!("fault.chunk_boundary_in.{k}"), n);
                }
                env.u64((step.plan.cuts.len().min(9) as u64) << 8 | (step.plan.eintr.len().min(3) as u64) << 4 | step.cfg as u64);
                if let Input::Alt(i) = &step.input {
                    if let Some(a) = &s.alts[*i] {
                        for k in diff_kinds(&s.docs[*i], a) {
                            rewritten = true;
                            bump(ctr, &format!("fault.rewrite.{k}"));
                        }
                    }
                }
                if let Some(p) = &st.panic {
                    violation.get_or_insert(Violation { class: "panic".into(), detail: format!("replica {} step {si}: {p}", s.replicas[ri].role) });
                }
                let base = &outs[0].steps[si];
                if !st.ok {
                    violation.get_or_insert(Violation {
                        class: "well_formed_document_rejected".into(),
                        detail: format!("replica {} step {si}: {:?}", s.replicas[ri].role, st.err.as_ref().map(|e| e.display.clone())),
                    });
                }
                for (oi, (a, b)) in base.renders.iter().zip(st.renders.iter()).enumerate() {
                    if a != b {
                        violation.get_or_insert(Violation {
                            class: format!("render_differs:{}", s.replicas[ri].role.split('@').next().unwrap_or("").replace("logging-", "").replace("env-", "").replace("migrating-", "").replace("probing-", "").replace("reentrant-", "").replace("parking-", "")),
                            detail: format!(
                                "after step {si}, options {}: baseline renders\n{a}\nreplica {} renders\n{b}",
                                s.opts[oi].to_j().to_string(),
                                s.replicas[ri].role
                            ),
                        });
                        break;
                    }
                }
                if base.renders.len() != st.renders.len() {
                    violation.get_or_insert(Violation { class: "render_missing".into(), detail: format!("replica {} step {si}", s.replicas[ri].role) });
                }
            }
        }
        if s.replicas.iter().any(|r| !r.warmup.is_empty()) {
            bump(ctr, "fault.veteran_thread_replica");
        }
        super::count_decorations(s, ctr);
        if s.replicas.len() > 10 {
            bump(ctr, "sweep.two_chunk_split_documents");
            add(ctr, "sweep.two_chunk_splits", s.replicas.len() as u64 - 2);
        }
        let refs: Vec<&Doc> = s.docs.iter().collect();
        let m = infer(&refs);
        // reach: an empty-form swap on an element whose schema position has children (the blanket-demotion path)
        for (d, a) in s.docs.iter().zip(s.alts.iter()) {
            if let Some(a) = a {
                fn walk(x: &Elem, y: &Elem, m: &crate::model::MNode, hit: &mut bool) {
                    if x.kids.is_empty() && y.kids.is_empty() && x.selfclose != y.selfclose && !m.kids.is_empty() {
                        *hit = true;
                    }
                    for (cx, cy) in x.elems().zip(y.elems()) {
                        if let Some(k) = m.kid(&cx.name) {
                            walk(cx, cy, &k.node, hit);
                        }
                    }
                }
                let mut hit = false;
                walk(&d.root, &a.root, &m, &mut hit);
                if hit {
                    bump(ctr, "reach.empty_form_swapped_on_position_with_children");
                }
            }
        }
        let mut fp = Fnv::new();
        for r in &s.replicas {
            for st in &r.steps {
                fp.bytes(&s.bytes_of(&st.input));
                fp.str(&st.plan.to_j().to_string());
                fp.u64(st.cfg as u64);
            }
        }
        let mut shape = String::new();
        m.shape(&mut shape);
        Ok(Exec {
            violation,
            trace,
            fingerprint: fp.0,
            nontrivial: straddled > 0 || rewritten,
            sim_steps,
            discarded: None,
            shape: crate::rng::hash_str(&shape),
            env_sig: env.0,
        })
    }
    fn rule(&self) -> &'static str {
        "a case = one generated history (1-4 documents) delivered to a baseline replica (slice reader) and to twins sharing its entropy: channel twin (SimReader chunking incl. adversarial cuts around markup bytes and inside UTF-8 sequences, EINTR bursts, BufReader capacities 1..64/8192, expand_empty_elements), rewrite twin (values, text, CDATA, comments, PIs, prolog, empty-element form rewritten on the same DOM), composed twin; 3% of cases are bounded sweeps (every two-chunk split + byte-at-a-time of one small document); renders compared byte-for-byte with the baseline after every delivery; distinct = distinct (bytes, plan, config) sequence; non-trivial = at least one chunk boundary fell inside a markup token or at least one rewrite changed the bytes"
    }
    fn real_components(&self) -> Vec<&'static str> {
        vec!["xml_schema_generator", "quick-xml buffered reader and state machine", "std BufReader", "std HashMap/RandomState"]
    }
    fn stub_components(&self) -> Vec<&'static str> {
        vec!["byte source: SimReader (chunk boundaries, Interrupted errors)", "getrandom(2) per replica thread"]
    }
    fn assumptions(&self) -> Vec<&'static str> {
        vec![
            "generated documents are well-formed; cross-checked on every run: the reader must see exactly the DOM's structure, else harness error",
            "whitespace-only text counts as character data (it is a Text event of the default-configured reader)",
        ]
    }
}
