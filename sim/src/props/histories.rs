//! C01, C03, C09, C06 — properties of the schema as a function of the delivery *history*. One session
//! generator (documents from a skeleton; replicas that differ in environment and in delivery order,
//! repetition, empty inputs, failing deliveries), four independent oracles.

use super::{add, bump, crosscheck_docs, gen_history, skip, Ctr, Exec, Prop, Scenario, Violation};
use crate::dom::{local, Doc, Elem, GenCfg, Node};
use crate::model::{infer, MNode};
use crate::observe::{parse_blocks, Obs};
use crate::rng::{Fnv, Rng};
use crate::schema::{admits, canon, cmp_exact, cmp_field_order, cmp_named_resolution, cmp_same_content, cmp_struct_order, cmp_struct_set, monotone, Canon};
use crate::session::{expected_verdict, run_session, trace_hash, Input, RenderOpt, Replica, ReplicaOut, Session, Step, Want, CFG_EXPAND_EMPTY};
use crate::simreader::{Fault, Plan};

const EMPTY_INPUTS: &[&[u8]] = &[
    b"",
    b" ",
    b"\n\n",
    b"<?xml version=\"1.0\"?>",
    b"<?xml version=\"1.0\"?>\n",
    b"<!-- nothing here -->",
    b"<?pi data?>",
    b"<!DOCTYPE r>",
    b"<?xml version=\"1.0\"?><!DOCTYPE r [<!ELEMENT r ANY>]><!-- c -->\n",
    b"just text",
];

fn special_family(rng: &mut Rng, cfg: &GenCfg) -> Option<Vec<Doc>> {
    let which = rng.below(40);
    // the huge-schema and huge-table families are expensive: once in 600 sessions each
    let which = if (which == 4 || which == 5) && !rng.pct(7) { 39 } else { which };
    let which = if which == 6 && !rng.pct(10) { 39 } else { which };
    let which = if which == 11 && !rng.pct(12) { 39 } else { which };
    family(rng, cfg, which)
}

/// 0 deep chain, 1 wide parent (many occurrences), 2 very wide position (many distinct names), 3 long history
pub fn family(rng: &mut Rng, cfg: &GenCfg, which: usize) -> Option<Vec<Doc>> {
    match which {
        0 => {
            // deep chain, same or distinct names, optionally with a sibling at every level
            // depth classes: moderate; around 96..140; beyond 256 (thresholds of "stack protection" style changes)
            let depth = match rng.below(80) {
                0..=75 => rng.range(5, 60),
                76..=78 => rng.range(90, 140),
                _ => rng.range(250, 290),
            };
            let same = rng.pct(50);
            let sib = rng.pct(40);
            let k = if depth > 140 { 1 } else { rng.range(1, 3) };
            let mut docs = Vec::new();
            for d in 0..k {
                let dd = if d == 0 { depth } else { rng.range(2, depth) };
                let mut cur: Option<Elem> = None;
                for i in (0..dd).rev() {
                    let mut e = Elem::new(&if same || i == 0 { "a".to_string() } else { format!("a{i}") });
                    if let Some(c) = cur.take() {
                        e.kids.push(Node::Elem(c));
                    } else {
                        // the bottom of the chain branches: a text leaf and two struct-producing children
                        if rng.pct(50) {
                            e.kids.push(Node::Text("x".into()));
                        }
                        if rng.pct(60) {
                            let mut p = Elem::new("p");
                            p.kids.push(Node::Elem(Elem::new("q")));
                            e.kids.push(Node::Elem(p));
                            e.kids.push(Node::Elem(Elem::new("t")));
                        }
                    }
                    if sib && rng.pct(60) {
                        let mut s = Elem::new("s");
                        s.selfclose = rng.pct(50);
                        e.kids.push(Node::Elem(s));
                    }
                    cur = Some(e);
                }
                docs.push(Doc::plain(cur.unwrap()));
            }
            Some(docs)
        }
        1 => {
            // wide parent: many occurrences of one child drawn from one skeleton
            let mut c = cfg.clone();
            c.max_depth = 2;
            c.max_elems = 400;
            c.p_long = 0;
            let mut budget = 4;
            let sk = crate::dom::gen_skel(rng, &c, "p", 1, &mut budget);
            // occurrence counts around the widths of narrow counters (u8, u16) and their multiples
            let n = *rng.pick(&[10usize, 20, 33, 50, 65, 129, 255, 256, 257, 512, 1025, 4096]);
            let k = rng.range(1, 2);
            let mut docs = Vec::new();
            for _ in 0..k {
                let mut root = Elem::new("r");
                for _ in 0..n {
                    let mut b = 1000;
                    root.kids.push(Node::Elem(crate::dom::inst(rng, &c, &sk, &mut b)));
                }
                docs.push(Doc::plain(root));
            }
            if rng.pct(50) {
                // the wide occurrence comes later in the history: first a document with a single such child
                let mut root = Elem::new("r");
                let mut b = 1000;
                root.kids.push(Node::Elem(crate::dom::inst(rng, &c, &sk, &mut b)));
                docs.insert(0, Doc::plain(root));
            }
            Some(docs)
        }
        6 => {
            // name flood: a parent that is met again, and whose later occurrence brings hundreds or thousands of names
            // the process has never seen (a bounded symbol table rolls over *while* that occurrence is being merged)
            let n = *rng.pick(&[300usize, 300, 1100, 4200]);
            let tag: String = (0..3).map(|_| (b'a' + rng.below(26) as u8) as char).collect();
            let mut root = Elem::new("r");
            let mut first = Elem::new("p");
            for m in ["m", "k"] {
                let mut e = Elem::new(m);
                e.kids.push(Node::Text("t".into()));
                first.kids.push(Node::Elem(e));
            }
            root.kids.push(Node::Elem(first.clone()));
            let mut second = first.clone();
            for i in 0..n {
                let mut e = Elem::new(&format!("{tag}{i}"));
                e.selfclose = true;
                second.kids.insert(1 + i.min(1), Node::Elem(e));
            }
            root.kids.push(Node::Elem(second));
            if rng.pct(50) {
                root.kids.push(Node::Elem(first));
            }
            Some(vec![Doc::plain(root)])
        }
        5 => {
            // huge accumulated occurrence count: a table of 33000..70000 tiny rows, supplied once or twice
            let rows = *rng.pick(&[33_000usize, 65_535, 65_536, 70_000]);
            let mut root = Elem::new("r");
            for _ in 0..rows {
                let mut row = Elem::new("row");
                row.selfclose = true;
                root.kids.push(Node::Elem(row));
            }
            let d = Doc::plain(root);
            let mut small = Elem::new("r");
            let mut row = Elem::new("row");
            row.selfclose = true;
            small.kids.push(Node::Elem(row));
            let mut docs = vec![d.clone()];
            if rng.pct(60) {
                docs.push(d);
            }
            docs.push(Doc::plain(small));
            Some(docs)
        }
        2 => {
            // very wide schema position: 40..=140 *distinct* child names (and up to 80 distinct attributes) under one
            // parent, accumulated over occurrences and documents, some children repeated inside one occurrence
            let n = rng.range(40, 140);
            let na = if rng.pct(50) { rng.range(0, 80) } else { 0 };
            let k = rng.range(1, 3);
            let mut docs = Vec::new();
            for _ in 0..k {
                let mut root = Elem::new("r");
                let occs = rng.range(1, 3);
                for _ in 0..occs {
                    let mut p = Elem::new("p");
                    for a in 0..na {
                        if rng.pct(80) {
                            p.attrs.push(crate::dom::Attr { name: format!("a{a}{}", ["", "b", "x"][a % 3]), value: "v".into(), quote: b'"' });
                        }
                    }
                    for c in 0..n {
                        if rng.pct(15) {
                            continue;
                        }
                        let reps = if rng.pct(8) { 2 } else { 1 };
                        for _ in 0..reps {
                            let mut e = Elem::new(&format!("c{c}"));
                            e.selfclose = rng.pct(70);
                            if rng.pct(10) {
                                e.kids.push(Node::Text("t".into()));
                            }
                            p.kids.push(Node::Elem(e));
                        }
                    }
                    if rng.pct(30) {
                        // children in another order in this occurrence
                        let mut kids = std::mem::take(&mut p.kids);
                        rng.shuffle(&mut kids);
                        p.kids = kids;
                    }
                    root.kids.push(Node::Elem(p));
                }
                docs.push(Doc::plain(root));
            }
            Some(docs)
        }
        4 => {
            // huge schema: 2000..3500 distinct positions (size thresholds such as "parallelise above 2048 elements")
            let sections = rng.range(30, 50);
            let per = rng.range(60, 75);
            let mut root = Elem::new("catalog");
            for i in 0..sections {
                let mut s = Elem::new(&format!("s{i:02}"));
                // uneven sizes: the first section is much larger than the rest
                let n = if i == 0 { per * 3 } else { per / 2 + rng.below(per) };
                for j in 0..n {
                    let mut g = Elem::new(&format!("g{i:02}x{j}"));
                    g.selfclose = true;
                    s.kids.push(Node::Elem(g));
                }
                root.kids.push(Node::Elem(s));
            }
            Some(vec![Doc::plain(root)])
        }
        3 => {
            // long history: 8..=20 small documents from one skeleton (counters, positions and merges accumulate)
            let mut c = cfg.clone();
            c.max_elems = 8;
            c.max_depth = c.max_depth.min(3);
            let k = rng.range(8, 20);
            Some(gen_history(rng, &c, k).1)
        }
        7 | 8 => {
            // compensated absence: a parent with n children, all present once at first; in a later occurrence (same
            // document, or a later one) some are missing and others are repeated just so often that the number of child
            // tags is n again - totals, sums and lengths agree with "everything was seen once", the sets do not
            let n = *rng.pick(&[2usize, 3, 4, 7, 8, 9, 12, 16, 17]);
            let names: Vec<String> = (0..n).map(|i| if i < cfg.elem_names.len() && n <= 4 { cfg.elem_names[i].clone() } else { format!("k{i}") }).collect();
            let root_name = "r";
            let full = |selfclose: bool| {
                let mut p = Elem::new("p");
                for nm in &names {
                    let mut c = Elem::new(nm);
                    c.selfclose = selfclose;
                    p.kids.push(Node::Elem(c));
                }
                p
            };
            let compensated = |rng: &mut Rng| {
                let missing = rng.range(1, (n / 2).max(1));
                let mut present: Vec<&String> = names.iter().collect();
                rng.shuffle(&mut present);
                let gone: Vec<&String> = present.drain(..missing).collect();
                let _ = gone;
                let mut p = Elem::new("p");
                let keep_order: Vec<&String> = names.iter().filter(|x| present.contains(x)).collect();
                let mut extra = missing;
                for nm in keep_order {
                    let reps = if extra > 0 && rng.pct(50) { let r = rng.range(1, extra); extra -= r; 1 + r } else { 1 };
                    for _ in 0..reps {
                        p.kids.push(Node::Elem(Elem::new(nm)));
                    }
                }
                // whatever is left goes to the last kept child
                if extra > 0 {
                    if let Some(Node::Elem(last)) = p.kids.last().cloned() {
                        for _ in 0..extra {
                            p.kids.push(Node::Elem(last.clone()));
                        }
                    }
                }
                p
            };
            let mut docs = Vec::new();
            let in_one = rng.pct(50);
            let mut r = Elem::new(root_name);
            r.kids.push(Node::Elem(full(rng.pct(50))));
            if in_one {
                if rng.pct(40) {
                    r.kids.push(Node::Elem(full(false)));
                }
                r.kids.push(Node::Elem(compensated(rng)));
            }
            docs.push(Doc::plain(r));
            if !in_one || rng.pct(40) {
                let mut r2 = Elem::new(root_name);
                r2.kids.push(Node::Elem(compensated(rng)));
                docs.push(Doc::plain(r2));
            }
            if rng.pct(50) {
                docs.reverse();
            }
            Some(docs)
        }
        9 | 10 => {
            // wide sparse parent: 8..=14 distinct child names (optionally with a pair that asks for the same identifier),
            // three to seven occurrences spread over one to three documents; an occurrence is the full list, a small
            // "core" subset that keeps coming back, the core plus a new name, some other small subset, or empty in
            // either spelling. Width thresholds ("at least 8 / 9 children"), sparse fast paths and anything that lets
            // a re-seen child stay mandatory meet here.
            let n = rng.range(8, 14);
            let mut names: Vec<String> = (0..n).map(|i| format!("k{i}")).collect();
            if rng.pct(50) {
                let pair = *rng.pick(&[["Foo", "foo"], ["item", "Item"], ["a-b", "a_b"]]);
                let i = rng.below(n - 1);
                names[i] = pair[0].to_string();
                names[i + 1 + rng.below(n - 1 - i)] = pair[1].to_string();
            }
            let mut core: Vec<String> = Vec::new();
            if names.iter().any(|x| x == "Foo" || x == "item" || x == "a-b") && rng.pct(50) {
                core = names.iter().filter(|x| !x.starts_with('k')).cloned().collect();
            } else {
                for _ in 0..rng.range(1, 3) {
                    let c = rng.pick(&names).clone();
                    if !core.contains(&c) {
                        core.push(c);
                    }
                }
            }
            let mut fresh = 0;
            let mut occ = |rng: &mut Rng, kind: usize| {
                let mut p = Elem::new("p");
                let list: Vec<String> = match kind {
                    0 => names.clone(),
                    1 => names.iter().filter(|x| core.contains(x)).cloned().collect(),
                    2 => {
                        fresh += 1;
                        let mut l: Vec<String> = names.iter().filter(|x| core.contains(x)).cloned().collect();
                        l.push(format!("n{fresh}"));
                        l
                    }
                    3 => names.iter().filter(|x| !core.contains(x) && rng.pct(25)).cloned().collect(),
                    4 => names.iter().filter(|x| !core.contains(x)).cloned().collect(),
                    _ => Vec::new(),
                };
                if list.is_empty() {
                    p.selfclose = rng.pct(60);
                }
                for nm in list {
                    let mut c = Elem::new(&nm);
                    c.selfclose = rng.pct(50);
                    p.kids.push(Node::Elem(c));
                    if rng.pct(4) {
                        p.kids.push(Node::Elem(Elem::new(&nm)));
                    }
                }
                p
            };
            let k = rng.range(3, 7);
            let mut occs = vec![occ(rng, 0)];
            for _ in 1..k {
                let kind = *rng.pick(&[0usize, 1, 1, 1, 2, 2, 3, 3, 4, 5, 5]);
                occs.push(occ(rng, kind));
            }
            if rng.pct(25) {
                rng.shuffle(&mut occs);
            }
            let nd = rng.range(1, 3).min(occs.len());
            let mut docs: Vec<Doc> = Vec::new();
            let per = (occs.len() + nd - 1) / nd;
            for chunk in occs.chunks(per) {
                let mut r = Elem::new("r");
                for o in chunk {
                    r.kids.push(Node::Elem(o.clone()));
                }
                docs.push(Doc::plain(r));
            }
            Some(docs)
        }
        11 => {
            // irregular table: 4100..=5200 rows of one name with the same two or three children, except for a handful
            // of rows in which a child is repeated, and a handful in which it is missing (anything that switches to
            // totals - "child count below parent count" - once an element has been seen a few thousand times)
            let rows = *rng.pick(&[4100usize, 4200, 5200]);
            let cols: Vec<&str> = ["v", "w", "x"].iter().copied().take(rng.range(1, 3)).collect();
            let nd = rng.range(1, 3);
            let mut docs = Vec::new();
            let mut left = rows;
            for d in 0..nd {
                let here = if d + 1 == nd { left } else { left / 2 };
                left -= here;
                let mut root = Elem::new("r");
                for _ in 0..here {
                    let mut row = Elem::new("row");
                    for c in &cols {
                        let reps = if rng.pct(1) { *rng.pick(&[0usize, 0, 2, 2, 3]) } else { 1 };
                        for _ in 0..reps {
                            let mut e = Elem::new(c);
                            e.selfclose = true;
                            row.kids.push(Node::Elem(e));
                        }
                    }
                    if row.kids.is_empty() {
                        row.selfclose = rng.pct(50);
                    }
                    root.kids.push(Node::Elem(row));
                }
                docs.push(Doc::plain(root));
            }
            // irregular rows at the very end as well: after the threshold has certainly been passed
            for tail in [&["v", "v"][..], &[][..], &["v"][..]] {
                if rng.pct(60) {
                    let mut row = Elem::new("row");
                    for c in tail {
                        let mut e = Elem::new(c);
                        e.selfclose = true;
                        row.kids.push(Node::Elem(e));
                    }
                    if let Some(Node::Elem(_)) = docs.last().unwrap().root.kids.last() {
                        docs.last_mut().unwrap().root.kids.push(Node::Elem(row));
                    }
                }
            }
            Some(docs)
        }
        _ => None,
    }
}

/// C01 precondition on the schema positions: no two sibling element names and no two attribute names of
/// one element differ only by namespace prefix
fn prefix_twins(m: &MNode) -> bool {
    let twins = |names: Vec<&str>| {
        for (i, a) in names.iter().enumerate() {
            for b in names.iter().skip(i + 1) {
                if a != b && local(a) == local(b) {
                    return true;
                }
            }
        }
        false
    };
    twins(m.attrs.iter().map(|a| a.0.as_str()).collect()) || twins(m.kids.iter().map(|k| k.node.name.as_str()).collect()) || m.kids.iter().any(|k| prefix_twins(&k.node))
}

fn corrupt(rng: &mut Rng, good: &[u8]) -> Vec<u8> {
    // a damaged copy of a document: the independent verdict decides whether it must be rejected
    let mut b = good.to_vec();
    let other = good.to_vec();
    let n = rng.range(1, 3);
    for _ in 0..n {
        crate::mutate::mutate_once(rng, &mut b, &other);
    }
    b
}

fn env_steps(rng: &mut Rng, docs: &[Doc], order: &[usize], with_failures: bool, with_empties: bool) -> Vec<Step> {
    let mut st = Vec::new();
    for (n, i) in order.iter().enumerate() {
        let good = docs[*i].ser();
        if with_empties && n > 0 && rng.pct(30) {
            st.push(Step { input: Input::Raw(rng.pick(EMPTY_INPUTS).to_vec()), plan: Plan::slice(), cfg: 0 });
        }
        if with_failures && rng.pct(35) {
            if rng.pct(50) {
                // the channel fails half-way through the intact document
                let mut p = Plan::draw_transparent(rng, &good);
                p.fault = match Plan::draw_fault(rng, &good) {
                    Fault::Truncate { at } => Fault::Io { at, kind: "Other".into() },
                    f => f,
                };
                p.io_once = rng.pct(30);
                st.push(Step { input: Input::Doc(*i), plan: p, cfg: 0 });
            } else {
                // only copies that the independent verdict rejects (even as an extension) count as failed deliveries;
                // a damaged copy that still parses would be a *different* document and change the union
                for _ in 0..6 {
                    let bad = corrupt(rng, &good);
                    if !expected_verdict(&bad, &Plan::slice(), 0, false).is_ok() {
                        let plan = if rng.pct(50) { Plan::slice() } else { Plan::draw_transparent(rng, &bad) };
                        st.push(Step { input: Input::Raw(bad), plan, cfg: 0 });
                        break;
                    }
                }
            }
        }
        let plan = if rng.pct(50) { Plan::slice() } else { Plan::draw_transparent(rng, &good) };
        let cfg = if rng.pct(20) { CFG_EXPAND_EMPTY } else { 0 };
        st.push(Step { input: Input::Doc(*i), plan, cfg });
    }
    st
}

fn gen_session(rng: &mut Rng, no_twins: bool, c06: bool) -> Session {
    gen_session_with(rng, no_twins, c06, false)
}

/// `cut_short`: some document of the history may end early, at a token boundary (C06, C09: their statements speak of
/// the documents supplied, not of well-formed ones; C01 and C03 are stated for well-formed documents only)
fn gen_session_with(rng: &mut Rng, no_twins: bool, c06: bool, cut_short: bool) -> Session {
    let bias = rng.pct(35);
    let mut cfg = GenCfg::draw(rng, bias);
    cfg.no_prefix_twins = no_twins;
    if !c06 && rng.pct(20) {
        // plain-word regime: lowercase ASCII words only (struct names are then uniquely decodable, see
        // schema::cmp_named_resolution); the same few names recur at many positions and depths
        let pool = ["a", "b", "c", "d", "x", "y", "p", "q", "s", "item", "name", "id", "value", "foo"];
        let n = rng.range(2, 5);
        cfg.elem_names.clear();
        while cfg.elem_names.len() < n {
            let c = rng.pick(&pool).to_string();
            if !cfg.elem_names.contains(&c) {
                cfg.elem_names.push(c);
            }
        }
        cfg.max_depth = cfg.max_depth.max(4);
    }
    cfg.elem_names.retain(|n| !crate::observe::type_ambiguous(n));
    if cfg.elem_names.is_empty() {
        cfg.elem_names.push("a".into());
    }
    let k = if c06 { rng.range(2, 5) } else { *rng.pick(&[1usize, 1, 2, 2, 3, 3, 4, 5]) };
    let mut docs = match special_family(rng, &cfg) {
        // the unreliable-delivery property is not about depth: keep its (many-replica) sessions shallow
        Some(d) if !(c06 && (d.iter().any(|x| x.root.depth() > 140) || d.len() > 5 || (d.iter().map(|x| x.root.count()).sum::<usize>() > 1500 && d[0].root.count() < 30_000 && !(d[0].root.name == "r" && d.iter().map(|x| x.root.kids.len()).sum::<usize>() > 4000 && d.len() <= 3)))) => d,
        _ => gen_history(rng, &cfg, k).1,
    };
    if cut_short && rng.pct(15) {
        let i = rng.below(docs.len());
        docs[i].unclosed = true;
        if rng.pct(30) {
            let j = rng.below(docs.len());
            docs[j].unclosed = true;
        }
    }
    // expensive histories (very deep, or thousands of distinct children under one parent) get the baseline replica only
    let very_deep = docs.iter().any(|x| x.root.depth() > 140 || x.root.elems().any(|p| p.kids.len() > 2000));
    let k = docs.len();
    let rewritten_dups = c06 && rng.pct(40);
    let alts: Vec<Option<Doc>> = if rewritten_dups {
        docs.iter()
            .map(|d| {
                let mut fired = Vec::new();
                Some(crate::dom::rewrite(rng, d, &mut fired))
            })
            .collect()
    } else {
        vec![None; k]
    };
    let in_order: Vec<usize> = (0..k).collect();
    let mut replicas = Vec::new();
    let base: Vec<Step> = in_order.iter().map(|i| Step { input: Input::Doc(*i), plan: Plan::slice(), cfg: 0 }).collect();
    replicas.push(Replica { role: "baseline".into(), entropy: rng.u128(), steps: base, warmup: vec![] });
    if !c06 {
        if rng.pct(70) && !very_deep {
            let fail = rng.pct(40);
            let role = "environment-twin";
            replicas.push(Replica { role: role.into(), entropy: rng.u128(), steps: env_steps(rng, &docs, &in_order, fail, false), warmup: vec![] });
        }
    } else {
        let sweep = k <= 4 && rng.pct(6);
        if sweep {
            // every delivery order of the history
            let mut perm: Vec<usize> = (0..k).collect();
            let mut all = Vec::new();
            fn heap(n: usize, a: &mut Vec<usize>, out: &mut Vec<Vec<usize>>) {
                if n <= 1 {
                    out.push(a.clone());
                    return;
                }
                for i in 0..n {
                    heap(n - 1, a, out);
                    if n % 2 == 0 {
                        a.swap(i, n - 1);
                    } else {
                        a.swap(0, n - 1);
                    }
                }
            }
            heap(k, &mut perm, &mut all);
            all.sort();
            all.dedup();
            for (n, o) in all.iter().enumerate() {
                if *o == in_order {
                    continue;
                }
                let st: Vec<Step> = o.iter().map(|i| Step { input: Input::Doc(*i), plan: Plan::slice(), cfg: 0 }).collect();
                replicas.push(Replica { role: format!("order-{n}"), entropy: rng.u128(), steps: st, warmup: vec![] });
            }
        } else {
            // permuted
            let mut o = in_order.clone();
            rng.shuffle(&mut o);
            let st: Vec<Step> = o.iter().map(|i| Step { input: Input::Doc(*i), plan: Plan::slice(), cfg: 0 }).collect();
            replicas.push(Replica { role: "permuted".into(), entropy: rng.u128(), steps: st, warmup: vec![] });
            // duplicating: some documents delivered again, at any later point
            let mut o = in_order.clone();
            let dups = rng.range(1, 3);
            for _ in 0..dups {
                let d = rng.below(k);
                let first = o.iter().position(|x| *x == d).unwrap();
                let at = rng.range(first + 1, o.len());
                o.insert(at, d);
            }
            // a redelivery may also arrive with rewritten incidental detail (same structure): still a no-op
            let mut seen_docs: Vec<usize> = Vec::new();
            let st: Vec<Step> = o
                .iter()
                .map(|i| {
                    let again = seen_docs.contains(i);
                    seen_docs.push(*i);
                    Step { input: if again && rewritten_dups { Input::Alt(*i) } else { Input::Doc(*i) }, plan: Plan::slice(), cfg: 0 }
                })
                .collect();
            replicas.push(Replica { role: "duplicating".into(), entropy: rng.u128(), steps: st, warmup: vec![] });
            // unreliable channel: reordered, empties interleaved, failed deliveries followed by a good redelivery
            let mut o = in_order.clone();
            if rng.pct(60) {
                rng.shuffle(&mut o);
            }
            replicas.push(Replica { role: "unreliable-channel".into(), entropy: rng.u128(), steps: env_steps(rng, &docs, &o, true, true), warmup: vec![] });
        }
    }
    // veteran threads: every replica but the baseline may have worked on other inputs before
    for r in replicas.iter_mut().skip(1) {
        if rng.pct(25) && !very_deep {
            super::add_warmup(rng, r, &docs);
        }
        if !r.role.starts_with("order-") {
            super::decorate_role(rng, r);
        }
    }
    if !very_deep {
        let lens: Vec<usize> = docs.iter().map(|d| d.ser().len()).collect();
        let alens: Vec<usize> = alts.iter().zip(lens.iter()).map(|(a, l)| a.as_ref().map(|d| d.ser().len()).unwrap_or(*l)).collect();
        super::maybe_park(rng, &mut replicas, if c06 { 20 } else { 12 }, &|inp| match inp {
            Input::Doc(i) => lens[*i],
            Input::Alt(i) => alens[*i],
            Input::Raw(b) => b.len(),
        });
    }
    Session { alts, docs, replicas, opts: vec![RenderOpt::preset(false, false, ""), RenderOpt::preset(false, true, "")] }
}

/// the documents (by index) a replica has successfully delivered so far, in delivery order, after each step
fn delivered_after(s: &Session, r: &Replica, out: &ReplicaOut) -> Vec<Vec<usize>> {
    let mut cur: Vec<usize> = Vec::new();
    let mut v = Vec::new();
    for (st, o) in r.steps.iter().zip(out.steps.iter()) {
        if o.ok {
            if let Input::Doc(i) | Input::Alt(i) = &st.input {
                cur.push(*i);
            }
        }
        v.push(cur.clone());
    }
    let _ = s;
    v
}

struct Ctx<'a> {
    s: &'a Session,
    outs: Vec<ReplicaOut>,
    trace: u64,
    sim_steps: u64,
    fp: u64,
    env: u64,
    model_all: MNode,
    hard_faults: u64,
}

fn prepare<'a>(s: &'a Session, ctr: &mut Ctr, need_twin_free: bool) -> Result<Result<Ctx<'a>, Exec>, String> {
    prepare_with(s, ctr, need_twin_free, false)
}

fn prepare_with<'a>(s: &'a Session, ctr: &mut Ctr, need_twin_free: bool, sorted_too: bool) -> Result<Result<Ctx<'a>, Exec>, String> {
    if s.docs.is_empty() || s.replicas.is_empty() {
        return Ok(Err(skip("empty_session")));
    }
    let root = &s.docs[0].root.name;
    if s.docs.iter().any(|d| &d.root.name != root) {
        return Ok(Err(skip("roots_differ")));
    }
    for r in &s.replicas {
        for st in &r.steps {
            if let Input::Doc(i) | Input::Alt(i) = &st.input {
                if *i >= s.docs.len() {
                    return Ok(Err(skip("bad_doc_index")));
                }
            }
            if st.cfg & !CFG_EXPAND_EMPTY != 0 {
                return Ok(Err(skip("reader_config_changes_structure")));
            }
            if let Input::Raw(b) = &st.input {
                if let crate::verdict::Verdict::Ok { elements } = expected_verdict(b, &Plan::slice(), 0, false) {
                    if elements > 0 {
                        // literal bytes that parse and contain elements are an extra document outside the model
                        return Ok(Err(skip("raw_input_with_elements")));
                    }
                }
            }
        }
    }
    let refs: Vec<&Doc> = s.docs.iter().collect();
    crosscheck_docs(&refs)?;
    fn string_named(e: &Elem) -> bool {
        crate::observe::type_ambiguous(&e.name) || e.elems().any(string_named)
    }
    if s.docs.iter().any(|d| string_named(&d.root)) {
        // an element called `string` gets a struct called `String` (alone or through ancestor qualification), which
        // the rendered text cannot tell from the String type: the observation would be ambiguous (C04's subject)
        return Ok(Err(skip("element_named_string")));
    }
    for (d, a) in s.docs.iter().zip(s.alts.iter()) {
        if let Some(a) = a {
            if crate::verdict::structure_of(&a.root) != crate::verdict::structure_of(&d.root) {
                return Ok(Err(skip("rewrite_changed_structure")));
            }
            crosscheck_docs(&[a])?;
        }
    }
    let model_all = infer(&refs);
    if need_twin_free && prefix_twins(&model_all) {
        return Ok(Err(skip("precondition_prefix_twins")));
    }
    let want = Want { renders: true, render_twice: false, obs: true, obs_sorted: sorted_too };
    let outs = run_session(s, &want)?;
    let trace = trace_hash(&outs);
    let mut sim_steps = 0;
    let mut fp = Fnv::new();
    let mut env = Fnv::new();
    let mut hard_faults = 0;
    for (r, o) in s.replicas.iter().zip(outs.iter()) {
        for (st, so) in r.steps.iter().zip(o.steps.iter()) {
            sim_steps += so.stats.fill_calls + 2;
            add(ctr, "fault.eintr", so.stats.eintr_fired);
            add(ctr, "fault.io_error", so.stats.io_fired);
            hard_faults += so.stats.io_fired;
            if !st.plan.slice && !st.plan.cuts.is_empty() {
                bump(ctr, "fault.chunked_delivery");
            }
            if st.cfg & CFG_EXPAND_EMPTY != 0 {
                bump(ctr, "fault.expand_empty_elements_delivery");
            }
            fp.bytes(&s.bytes_of(&st.input));
            env.u64((st.plan.cuts.len().min(3) as u64) << 4 | (st.plan.eintr.len().min(2) as u64) << 2 | st.cfg as u64);
        }
        fp.str(&r.role);
    }
    if s.replicas.len() > 1 {
        bump(ctr, "fault.entropy_twin_sessions");
    }
    if s.replicas.iter().any(|r| !r.warmup.is_empty()) {
        bump(ctr, "fault.veteran_thread_replica");
    }
    super::count_decorations(s, ctr);
    Ok(Ok(Ctx { s, outs, trace, sim_steps, fp: fp.0, env: env.0, model_all, hard_faults }))
}

fn finish(c: &Ctx, violation: Option<Violation>, nontrivial: bool) -> Exec {
    let mut shape = String::new();
    c.model_all.shape(&mut shape);
    Exec { violation, trace: c.trace, fingerprint: c.fp, nontrivial, sim_steps: c.sim_steps, discarded: None, shape: crate::rng::hash_str(&shape), env_sig: c.env }
}

fn obs_of(so: &crate::session::StepOut, sorted: bool) -> Result<&Obs, Violation> {
    let o = if sorted { &so.obs_sorted } else { &so.obs };
    match o {
        Some(Ok(o)) => Ok(o),
        Some(Err(e)) => Err(Violation { class: "rendering_unparseable".into(), detail: e.clone() }),
        None => Err(Violation { class: "no_observation".into(), detail: so.panic.clone().unwrap_or_default() }),
    }
}

/// delivered-so-far model for a replica after step `si`
fn model_so_far(s: &Session, idx: &[usize]) -> Option<MNode> {
    if idx.is_empty() {
        return None;
    }
    let refs: Vec<&Doc> = idx.iter().map(|i| &s.docs[*i]).collect();
    Some(infer(&refs))
}

fn schema_interest(m: &MNode, opt: &mut u64, multi: &mut u64, text: &mut u64, optattr: &mut u64) {
    for a in &m.attrs {
        if !a.1 {
            *optattr += 1;
        }
    }
    if m.text {
        *text += 1;
    }
    for k in &m.kids {
        if !k.mandatory {
            *opt += 1;
        }
        if k.multiple {
            *multi += 1;
        }
        schema_interest(&k.node, opt, multi, text, optattr);
    }
}

/// reach probes over the occurrence sequence of every schema position (the interleavings the properties'
/// "why tests cannot" paragraphs name): optional child re-seen, child first seen in a later occurrence,
/// child repeated only in a later document, `<x/>` occurrence of a position that has children
fn occurrence_probes(docs: &[Doc], ctr: &mut Ctr) {
    fn walk(occs: Vec<(usize, &Elem)>, hits: &mut [bool; 4]) {
        let mut names: Vec<&str> = Vec::new();
        for (_, o) in &occs {
            for c in o.elems() {
                if !names.contains(&c.name.as_str()) {
                    names.push(&c.name);
                }
            }
        }
        if !names.is_empty() && occs.iter().any(|(_, o)| o.kids.is_empty() && o.selfclose) {
            hits[3] = true;
        }
        for n in &names {
            let present: Vec<usize> = occs.iter().map(|(_, o)| o.elems().filter(|c| c.name == *n).count()).collect();
            // present, absent, present again
            let first = present.iter().position(|c| *c > 0).unwrap();
            if let Some(gap) = present.iter().skip(first).position(|c| *c == 0) {
                if present.iter().skip(first + gap).any(|c| *c > 0) {
                    hits[0] = true;
                }
            }
            if first > 0 {
                hits[1] = true;
            }
            let first_doc = occs[0].0;
            let multi_first = occs.iter().filter(|(d, _)| *d == first_doc).zip(present.iter()).any(|(_, c)| *c > 1);
            let multi_later = occs.iter().zip(present.iter()).any(|((d, _), c)| *d != first_doc && *c > 1);
            if multi_later && !multi_first {
                hits[2] = true;
            }
            let sub: Vec<(usize, &Elem)> = occs.iter().flat_map(|(d, o)| o.elems().filter(move |c| c.name == *n).map(move |c| (*d, c))).collect();
            walk(sub, hits);
        }
    }
    let mut hits = [false; 4];
    walk(docs.iter().enumerate().map(|(i, d)| (i, &d.root)).collect(), &mut hits);
    for (h, k) in hits.iter().zip(["reach.optional_child_seen_again", "reach.child_first_seen_in_later_occurrence", "reach.child_repeated_only_in_later_document", "reach.selfclosed_occurrence_of_position_with_children"]) {
        if *h {
            bump(ctr, k);
        }
    }
}

fn reach(ctr: &mut Ctr, m: &MNode) -> bool {
    let (mut o, mut v, mut t, mut a) = (0, 0, 0, 0);
    schema_interest(m, &mut o, &mut v, &mut t, &mut a);
    if o > 0 {
        bump(ctr, "reach.schema_with_optional_child");
    }
    if v > 0 {
        bump(ctr, "reach.schema_with_vec_child");
    }
    if t > 0 {
        bump(ctr, "reach.schema_with_text");
    }
    if a > 0 {
        bump(ctr, "reach.schema_with_optional_attribute");
    }
    o + v + a > 0
}

/// a delivery that failed: fine when the independent verdict says the stream was at fault; a violation of
/// the property in hand only where the property says so (C06). Everywhere else it is simply skipped.
fn failed_step_expected(s: &Session, st: &Step, initial: bool) -> bool {
    !expected_verdict(&s.bytes_of(&st.input), &st.plan, st.cfg, initial).is_ok()
}

/// For C01 / C03 / C09: a delivery whose stream was at fault (independent verdict) but which returned Ok has put
/// something into the tree that no supplied document accounts for. Whether that is acceptable is C08's and
/// C06's question; for the schema properties the replica has simply left the model and is not judged further.
fn leaves_model(s: &Session, st: &Step, so: &crate::session::StepOut, initial: bool) -> bool {
    let suspicious = matches!(st.input, Input::Raw(_)) || st.plan.fault != Fault::None;
    suspicious && so.ok && failed_step_expected(s, st, initial)
}

// ---------------------------------------------------------------------------------------------

pub struct C03;
pub struct C01;
pub struct C09;
pub struct C06;

fn common_real() -> Vec<&'static str> {
    vec!["xml_schema_generator (parse, extend, merge, render)", "quick-xml reader", "std HashMap/RandomState", "std BufReader (when drawn)"]
}
fn common_stub() -> Vec<&'static str> {
    vec!["byte source: SimReader plans on the environment twin", "getrandom(2) per replica thread"]
}

impl Prop for C03 {
    fn id(&self) -> &'static str {
        "C03"
    }
    fn runs(&self, tier: &str) -> u64 {
        if tier == "thorough" {
            2_500_000
        } else {
            90_000
        }
    }
    fn gen(&self, seed: u64) -> Scenario {
        let mut rng = Rng::new(seed);
        Scenario::Session(gen_session(&mut rng, false, false))
    }
    fn exec(&self, sc: &Scenario, ctr: &mut Ctr) -> Result<Exec, String> {
        let Scenario::Session(s) = sc else { return Ok(super::skip("not_a_session")) };
        let c = match prepare(s, ctr, false)? {
            Ok(c) => c,
            Err(e) => return Ok(e),
        };
        let mut violation: Option<Violation> = None;
        'outer: for (ri, (r, o)) in s.replicas.iter().zip(c.outs.iter()).enumerate() {
            let delivered = delivered_after(s, r, o);
            for (si, so) in o.steps.iter().enumerate() {
                if let Some(p) = &so.panic {
                    if matches!(r.steps[si].input, Input::Raw(_)) || r.steps[si].plan.fault != Fault::None {
                        // a panic on damaged bytes or under a hard fault is C07's subject; this replica is just lost
                        bump(ctr, "replica_abandoned_after_panic_on_damaged_input");
                        break;
                    }
                    violation = Some(Violation { class: "panic".into(), detail: p.clone() });
                    break 'outer;
                }
                if leaves_model(s, &r.steps[si], so, si == 0 || !o.steps[si - 1].has_tree) {
                    bump(ctr, "replica_abandoned_after_unexpected_ok");
                    break;
                }
                if !so.ok {
                    bump(ctr, "fault.delivery_failed");
                    continue;
                }
                let Some(m) = model_so_far(s, &delivered[si]) else { continue };
                let obs = match obs_of(so, false) {
                    Ok(o) => o,
                    Err(v) => {
                        violation = Some(v);
                        break 'outer;
                    }
                };
                let f = cmp_exact(obs, &m, "")
                    .or_else(|| match parse_blocks(&so.renders[0]) {
                        Ok(b) => cmp_struct_set(obs, &b),
                        Err(e) => Some(("rendering_unparseable".into(), e)),
                    })
                    // the same structs and fields (order aside) must come out under the sort-by-name option
                    .or_else(|| match so.renders.get(1).map(|r| parse_blocks(r)) {
                        Some(Ok(b)) => cmp_struct_set(obs, &b).map(|(c, d)| (format!("{c}:sorted_by_name"), d)),
                        Some(Err(e)) => Some(("rendering_unparseable".into(), e)),
                        None => None,
                    });
                if let Some((class, detail)) = f {
                    violation = Some(Violation { class, detail: format!("replica {} ({ri}) after step {si}: {detail}", r.role) });
                    break 'outer;
                }
            }
        }
        let nt = reach(ctr, &c.model_all);
        occurrence_probes(&s.docs, ctr);
        Ok(finish(&c, violation, nt))
    }
    fn rule(&self) -> &'static str {
        "a case = a history of 1-5 documents instantiated from one schema skeleton (adversarial name pools, absent / repeated children, optional attributes, text / CDATA / whitespace text, both empty-element forms; 5% deep chains or wide parents) delivered in order to a baseline replica and to an environment twin (other entropy, chunked / EINTR / BufReader channel, expand_empty_elements, failed-then-retried deliveries); after every delivery the observation (public API + strictly parsed rendering of every position) is compared with the executable definition applied to the DOMs delivered so far; distinct = distinct byte history; non-trivial = the final schema has an optional child, a Vec child or an optional attribute"
    }
    fn real_components(&self) -> Vec<&'static str> {
        common_real()
    }
    fn stub_components(&self) -> Vec<&'static str> {
        common_stub()
    }
    fn assumptions(&self) -> Vec<&'static str> {
        vec![
            "the reference model is the definition in the statement: presence in every occurrence / max count per occurrence / any text or CDATA node (whitespace-only text and empty CDATA count, as they are reader events)",
            "attributes are compared by the serde name they are bound to (prefix removed), children by full XML name through the public API",
            "generated DOM == what the reader sees (cross-checked every run, else harness error)",
        ]
    }
}

impl Prop for C01 {
    fn id(&self) -> &'static str {
        "C01"
    }
    fn runs(&self, tier: &str) -> u64 {
        if tier == "thorough" {
            2_500_000
        } else {
            90_000
        }
    }
    fn gen(&self, seed: u64) -> Scenario {
        let mut rng = Rng::new(seed);
        Scenario::Session(gen_session(&mut rng, true, false))
    }
    fn exec(&self, sc: &Scenario, ctr: &mut Ctr) -> Result<Exec, String> {
        let Scenario::Session(s) = sc else { return Ok(super::skip("not_a_session")) };
        let c = match prepare(s, ctr, true)? {
            Ok(c) => c,
            Err(e) => return Ok(e),
        };
        let mut violation: Option<Violation> = None;
        let mut validated = 0u64;
        fn plain(e: &Elem) -> bool {
            !e.name.is_empty() && e.name.bytes().all(|b| b.is_ascii_lowercase()) && e.elems().all(plain)
        }
        let plain_words = s.docs.iter().all(|d| plain(&d.root)) && s.opts.first().map(|o| !o.by_name && !o.serde_xml_rs).unwrap_or(false);
        'outer: for (ri, (r, o)) in s.replicas.iter().zip(c.outs.iter()).enumerate() {
            let delivered = delivered_after(s, r, o);
            for (si, so) in o.steps.iter().enumerate() {
                if let Some(p) = &so.panic {
                    if matches!(r.steps[si].input, Input::Raw(_)) || r.steps[si].plan.fault != Fault::None {
                        // a panic on damaged bytes or under a hard fault is C07's subject; this replica is just lost
                        bump(ctr, "replica_abandoned_after_panic_on_damaged_input");
                        break;
                    }
                    violation = Some(Violation { class: "panic".into(), detail: p.clone() });
                    break 'outer;
                }
                if leaves_model(s, &r.steps[si], so, si == 0 || !o.steps[si - 1].has_tree) {
                    bump(ctr, "replica_abandoned_after_unexpected_ok");
                    break;
                }
                if !so.ok || delivered[si].is_empty() {
                    continue;
                }
                let obs = match obs_of(so, false) {
                    Ok(o) => o,
                    Err(v) => {
                        violation = Some(v);
                        break 'outer;
                    }
                };
                if plain_words {
                    if let Ok(whole) = parse_blocks(&so.renders[0]) {
                        bump(ctr, "reach.plain_word_regime_name_resolution_checked");
                        if let Some((class, detail)) = cmp_named_resolution(&whole) {
                            violation = Some(Violation { class, detail: format!("replica {} ({ri}) after step {si}: {detail}", r.role) });
                            break 'outer;
                        }
                    }
                }
                for di in &delivered[si] {
                    validated += 1;
                    if obs.name != s.docs[*di].root.name {
                        violation = Some(Violation { class: "root_name".into(), detail: format!("schema root is {:?}", obs.name) });
                        break 'outer;
                    }
                    if let Some((class, detail)) = admits(obs, &s.docs[*di].root, None, "") {
                        violation = Some(Violation { class, detail: format!("replica {} ({ri}) after step {si}, document {di}: {detail}", r.role) });
                        break 'outer;
                    }
                }
            }
        }
        add(ctr, "documents_validated_against_schema", validated);
        let nt = reach(ctr, &c.model_all);
        Ok(finish(&c, violation, nt))
    }
    fn rule(&self) -> &'static str {
        "a case = a history as in C03 with the C01 precondition enforced on every schema position (no sibling names / attribute names differing only by prefix; violating draws are discarded and counted); after every delivery every document delivered so far is validated against the current rendered schema by a document-against-schema validator (attribute and child bindings by serde name, required fields present, non-Vec children at most once, character data only with a text field, String-typed positions without structure); distinct = distinct byte history; non-trivial = the final schema has an optional child, a Vec child or an optional attribute"
    }
    fn real_components(&self) -> Vec<&'static str> {
        common_real()
    }
    fn stub_components(&self) -> Vec<&'static str> {
        common_stub()
    }
    fn assumptions(&self) -> Vec<&'static str> {
        vec![
            "a field is 'bound to the XML name' through the name the quick-xml preset documents and C03 fixes: the local name for elements, `@` + local name for attributes (`xmlns:*` keeps its prefix)",
            "generated DOM == what the reader sees (cross-checked every run, else harness error)",
        ]
    }
}

impl Prop for C09 {
    fn id(&self) -> &'static str {
        "C09"
    }
    fn runs(&self, tier: &str) -> u64 {
        if tier == "thorough" {
            2_500_000
        } else {
            90_000
        }
    }
    fn gen(&self, seed: u64) -> Scenario {
        let mut rng = Rng::new(seed);
        let mut s = gen_session_with(&mut rng, false, false, true);
        // a caller may set the text identifier itself (a public field): the orders must not depend on it
        if rng.chance(1, 3) {
            let id = rng.pick(&["#body", "zz#", "A#", "m#text", "#", "~"]).to_string();
            for by_name in [false, true] {
                let mut o = RenderOpt::preset(false, by_name, "");
                o.text_identifier = Some(id.clone());
                s.opts.push(o);
            }
        }
        Scenario::Session(s)
    }
    fn exec(&self, sc: &Scenario, ctr: &mut Ctr) -> Result<Exec, String> {
        let Scenario::Session(s) = sc else { return Ok(super::skip("not_a_session")) };
        if s.opts.len() < 2 || s.opts[0].by_name || !s.opts[1].by_name {
            return Ok(skip("needs_both_sort_options"));
        }
        let c = match prepare_with(s, ctr, false, true)? {
            Ok(c) => c,
            Err(e) => return Ok(e),
        };
        let mut violation: Option<Violation> = None;
        let mut late_multi_attr = false;
        'outer: for (ri, (r, o)) in s.replicas.iter().zip(c.outs.iter()).enumerate() {
            let delivered = delivered_after(s, r, o);
            for (si, so) in o.steps.iter().enumerate() {
                if let Some(p) = &so.panic {
                    if matches!(r.steps[si].input, Input::Raw(_)) || r.steps[si].plan.fault != Fault::None {
                        // a panic on damaged bytes or under a hard fault is C07's subject; this replica is just lost
                        bump(ctr, "replica_abandoned_after_panic_on_damaged_input");
                        break;
                    }
                    violation = Some(Violation { class: "panic".into(), detail: p.clone() });
                    break 'outer;
                }
                if leaves_model(s, &r.steps[si], so, si == 0 || !o.steps[si - 1].has_tree) {
                    bump(ctr, "replica_abandoned_after_unexpected_ok");
                    break;
                }
                if !so.ok {
                    continue;
                }
                let Some(m) = model_so_far(s, &delivered[si]) else { continue };
                let (obs, obs_n) = match (obs_of(so, false), obs_of(so, true)) {
                    (Ok(a), Ok(b)) => (a, b),
                    (Err(v), _) | (_, Err(v)) => {
                        violation = Some(v);
                        break 'outer;
                    }
                };
                let (whole_u, whole_n) = match (parse_blocks(&so.renders[0]), parse_blocks(&so.renders[1])) {
                    (Ok(a), Ok(b)) => (a, b),
                    (Err(e), _) | (_, Err(e)) => {
                        violation = Some(Violation { class: "rendering_unparseable".into(), detail: e });
                        break 'outer;
                    }
                };
                let f = cmp_field_order(obs, &m, false, "")
                    .or_else(|| cmp_struct_order(obs, &m, false, &whole_u))
                    .or_else(|| cmp_field_order(obs_n, &m, true, ""))
                    .or_else(|| cmp_struct_order(obs_n, &m, true, &whole_n))
                    .or_else(|| cmp_same_content(&whole_u, &whole_n))
                    .or_else(|| {
                        // renderings under a caller-set text identifier: field for field what the preset with the same
                        // sort option gives, except for the name the text field is bound to
                        for (oi, opt) in s.opts.iter().enumerate().skip(2) {
                            let Some(id) = &opt.text_identifier else { continue };
                            if opt.serde_xml_rs || opt.attribute_prefix.is_some() || so.renders.len() <= oi {
                                continue;
                            }
                            bump(ctr, "rendering_with_caller_text_identifier");
                            let blocks = match crate::observe::parse_blocks_with(&so.renders[oi], id) {
                                Ok(b) => b,
                                Err(e) => return Some(("rendering_unparseable".to_string(), format!("with text identifier {id:?}: {e}"))),
                            };
                            let reference = if opt.by_name { &whole_n } else { &whole_u };
                            let norm = |b: &crate::observe::Block| -> Vec<(crate::observe::Kind, String, bool, bool, String)> {
                                b.fields
                                    .iter()
                                    .map(|f| {
                                        let serde = if f.kind == crate::observe::Kind::Text { String::new() } else { f.serde.clone() };
                                        (f.kind.clone(), serde, f.opt, f.vec, f.ty.clone())
                                    })
                                    .collect()
                            };
                            if blocks.len() != reference.len() {
                                return Some(("override_changes_structs".to_string(), format!("text identifier {id:?}: {} structs instead of {}", blocks.len(), reference.len())));
                            }
                            for (b, r) in blocks.iter().zip(reference.iter()) {
                                if b.name != r.name || norm(b) != norm(r) {
                                    return Some((
                                        "override_changes_order".to_string(),
                                        format!("text identifier {id:?} (by_name={}): {:?} instead of {:?}", opt.by_name, b.lines, r.lines),
                                    ));
                                }
                            }
                        }
                        None
                    });
                if let Some((class, detail)) = f {
                    violation = Some(Violation { class, detail: format!("replica {} ({ri}) after step {si}: {detail}", r.role) });
                    break 'outer;
                }
            }
        }
        // reach: some position got >= 2 new attributes in one later occurrence; some child was demoted
        fn late_attrs(occs: &[&Elem]) -> bool {
            let mut seen: Vec<&str> = Vec::new();
            let mut hit = false;
            for (i, o) in occs.iter().enumerate() {
                let new = o.attrs.iter().filter(|a| !seen.contains(&a.name.as_str())).count();
                if i > 0 && new >= 2 {
                    hit = true;
                }
                for a in &o.attrs {
                    if !seen.contains(&a.name.as_str()) {
                        seen.push(&a.name);
                    }
                }
            }
            hit
        }
        fn walk(occs: Vec<&Elem>, hit: &mut bool) {
            if late_attrs(&occs) {
                *hit = true;
            }
            let mut names: Vec<&str> = Vec::new();
            for o in &occs {
                for c in o.elems() {
                    if !names.contains(&c.name.as_str()) {
                        names.push(&c.name);
                    }
                }
            }
            for n in names {
                let sub: Vec<&Elem> = occs.iter().flat_map(|o| o.elems().filter(move |c| c.name == n)).collect();
                walk(sub, hit);
            }
        }
        walk(s.docs.iter().map(|d| &d.root).collect(), &mut late_multi_attr);
        if late_multi_attr {
            bump(ctr, "reach.several_new_attributes_in_one_later_occurrence");
        }
        let nt = reach(ctr, &c.model_all) || late_multi_attr;
        Ok(finish(&c, violation, nt))
    }
    fn rule(&self) -> &'static str {
        "a case = a history as in C03; after every delivery, for the unsorted option: every struct lists attributes, then text, then children, attribute and child fields in model first-appearance order (greedy rank matching by serde name; names the model lacks are ignored, they are C03's business), struct definitions equal the pre-order walk in that order; for sort-by-name: attributes and children ascending by full XML name and the corresponding pre-order; and the two renderings agree as multisets of structs with multisets of field lines; distinct = distinct byte history; non-trivial = the schema has an optional/Vec child or optional attribute (demotion reorders the internal list) or some later occurrence introduces >= 2 new attributes at once"
    }
    fn real_components(&self) -> Vec<&'static str> {
        common_real()
    }
    fn stub_components(&self) -> Vec<&'static str> {
        common_stub()
    }
    fn assumptions(&self) -> Vec<&'static str> {
        vec![
            "'order of first appearance in the supplied documents' = document order within a document, delivery order across documents",
            "XML-name order = Rust String (byte-wise) order of the full name",
            "a stream that stops at a token boundary (15 % of the sessions hold one) is a supplied document like any other: the reader reports a plain end of input, the open elements are taken as they stand, so it counts exactly like its complete form",
        ]
    }
}

impl Prop for C06 {
    fn id(&self) -> &'static str {
        "C06"
    }
    fn runs(&self, tier: &str) -> u64 {
        if tier == "thorough" {
            2_000_000
        } else {
            70_000
        }
    }
    fn gen(&self, seed: u64) -> Scenario {
        let mut rng = Rng::new(seed);
        Scenario::Session(gen_session_with(&mut rng, false, true, true))
    }
    fn exec(&self, sc: &Scenario, ctr: &mut Ctr) -> Result<Exec, String> {
        let Scenario::Session(s) = sc else { return Ok(super::skip("not_a_session")) };
        let c = match prepare(s, ctr, false)? {
            Ok(c) => c,
            Err(e) => return Ok(e),
        };
        let mut violation: Option<Violation> = None;
        let mut finals: Vec<(String, Canon)> = Vec::new();
        let mut any_env = false;
        'outer: for (ri, (r, o)) in s.replicas.iter().zip(c.outs.iter()).enumerate() {
            let delivered = delivered_after(s, r, o);
            let mut prev: Option<Canon> = None;
            let mut has_tree = false;
            for (si, so) in o.steps.iter().enumerate() {
                let st = &r.steps[si];
                let fail = |class: &str, detail: String| Some(Violation { class: class.into(), detail: format!("replica {} ({ri}) step {si}: {detail}", r.role) });
                if let Some(p) = &so.panic {
                    violation = fail("panic", p.clone());
                    break 'outer;
                }
                let exp_err = failed_step_expected(s, st, !has_tree);
                if exp_err {
                    bump(ctr, "fault.delivery_failed_by_verdict");
                    any_env = true;
                }
                // (e) a failed extension reports an error rather than a partial result
                if exp_err && so.ok {
                    violation = fail("failed_delivery_returned_ok", "the stream was at fault (independent verdict) but the call returned Ok".into());
                    break 'outer;
                }
                if !exp_err && !so.ok {
                    violation = fail("good_delivery_rejected", format!("{:?}", so.err.as_ref().map(|e| e.display.clone())));
                    break 'outer;
                }
                has_tree = so.has_tree;
                if !so.has_tree {
                    continue;
                }
                let obs = match obs_of(so, false) {
                    Ok(o) => o,
                    Err(v) => {
                        violation = Some(v);
                        break 'outer;
                    }
                };
                let cur = canon(obs);
                if let Some(p) = &prev {
                    // (d) monotone along the history
                    if let Some((class, detail)) = monotone(p, &cur, "") {
                        violation = fail(&class, detail);
                        break 'outer;
                    }
                    let redelivery = match &st.input {
                        Input::Doc(i) | Input::Alt(i) => so.ok && delivered[si][..delivered[si].len() - 1].contains(i),
                        _ => false,
                    };
                    if redelivery {
                        bump(ctr, "fault.delivery_duplicated");
                        any_env = true;
                        // (b) idempotence
                        if *p != cur {
                            violation = fail("redelivery_changed_schema", "supplying a document a second time changed the schema".into());
                            break 'outer;
                        }
                    }
                    if let Input::Raw(_) = &st.input {
                        if so.ok {
                            bump(ctr, "fault.delivery_elementless");
                            any_env = true;
                            // (c) neutrality of empty / element-less inputs
                            if *p != cur {
                                violation = fail("elementless_input_changed_schema", "an input without elements changed the schema".into());
                                break 'outer;
                            }
                        } else if *p != cur {
                            violation = fail("failed_delivery_changed_schema", "the retained tree differs after a failed delivery".into());
                            break 'outer;
                        }
                    }
                    if !so.ok && *p != cur {
                        violation = fail("failed_delivery_changed_schema", "the retained tree differs after a failed delivery".into());
                        break 'outer;
                    }
                }
                prev = Some(cur);
            }
            // (a) the final schema is the one inferred from the union of the delivered documents
            let mut set: Vec<usize> = delivered.last().cloned().unwrap_or_default();
            set.sort();
            set.dedup();
            if set.len() != s.docs.len() {
                // a replica that never managed to deliver some document has nothing to say about the union
                bump(ctr, "replica_with_incomplete_delivery");
                continue;
            }
            if let (Some(last), Some(m)) = (o.steps.last(), model_so_far(s, &set)) {
                if let Ok(obs) = obs_of(last, false) {
                    if let Some((class, detail)) = cmp_exact(obs, &m, "") {
                        violation = Some(Violation { class: format!("union_mismatch:{class}"), detail: format!("replica {} ({ri}) final state: {detail}", r.role) });
                        break 'outer;
                    }
                    finals.push((r.role.clone(), canon(obs)));
                }
            }
            let order: Vec<usize> = delivered.last().cloned().unwrap_or_default();
            if order.windows(2).any(|w| w[0] > w[1]) {
                bump(ctr, "fault.delivery_reordered");
                any_env = true;
            }
        }
        if violation.is_none() {
            for f in finals.iter().skip(1) {
                if f.1 != finals[0].1 {
                    violation = Some(Violation {
                        class: "order_dependent".into(),
                        detail: format!("replicas {} and {} received the same documents but ended with different schemas", finals[0].0, f.0),
                    });
                    break;
                }
            }
        }
        if s.replicas.len() > 5 {
            bump(ctr, "sweep.all_delivery_orders_sessions");
            add(ctr, "sweep.delivery_orders", s.replicas.len() as u64);
        }
        add(ctr, "fault.hard_io_errors_fired", c.hard_faults);
        reach(ctr, &c.model_all);
        Ok(finish(&c, violation, any_env))
    }
    fn rule(&self) -> &'static str {
        "a case = a history of 2-5 documents with a common root delivered to replicas over an unreliable delivery layer: in order; permuted; with documents delivered twice; with empty / prolog-only / comment-only / text-only inputs interleaved; with failed deliveries (hard I/O error mid-document, or a byte-damaged copy whose independent verdict is Err) followed by a good redelivery from the retained clone; 6% of cases enumerate every delivery order (k<=4). Oracles: final observation == model of the union (by name and flags, order-insensitive) for every replica and equal across replicas; redelivery and element-less inputs leave the schema unchanged; along every history no field disappears, no Option becomes required, no Vec becomes single, no text flag clears; a delivery whose stream was at fault returns Err, an intact one Ok; distinct = distinct (bytes, role) history; non-trivial = at least one reorder, duplicate, element-less input or failed delivery actually happened"
    }
    fn real_components(&self) -> Vec<&'static str> {
        common_real()
    }
    fn stub_components(&self) -> Vec<&'static str> {
        vec!["delivery layer (order, duplication, loss-then-retry) and byte source (SimReader)", "getrandom(2) per replica thread"]
    }
    fn assumptions(&self) -> Vec<&'static str> {
        vec![
            "the client keeps its pre-operation clone, because extend_struct consumes the tree; after an Err it continues from that clone",
            "identifiers and field order legitimately depend on delivery order, so replicas are compared by XML name, optionality, multiplicity, text flag and nesting only",
            "a stream that stops at a token boundary (15 % of the sessions hold one) is a supplied document like any other: the reader reports a plain end of input, the open elements are taken as they stand, so it counts exactly like its complete form",
        ]
    }
}
