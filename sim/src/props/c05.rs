//! C05 — rendering is deterministic: the same history rendered under different hash entropies (fresh
//! threads with PRNG-chosen `RandomState` keys), and twice on the same thread, gives identical bytes.

use super::{add, all_opts, bump, snake_key, Ctr, Exec, Prop, Scenario, Violation};
use crate::dom::{gen_doc, gen_skel, GenCfg};
use crate::model::{infer, MNode};
use crate::rng::{Fnv, Rng};
use crate::session::{run_session, trace_hash, Input, Replica, Session, Step, Want};
use crate::simreader::Plan;

pub struct C05;

/// positions with ≥ 2 optional children / with two children whose field keys collide
pub fn collision_probes(m: &MNode, multi_opt: &mut u64, key_collide: &mut u64, both: &mut u64) {
    let opt = m.kids.iter().filter(|k| !k.mandatory).count();
    let mut keys: Vec<String> = m.kids.iter().map(|k| snake_key(&k.node.name)).collect();
    keys.sort();
    let n = keys.len();
    keys.dedup();
    let coll = keys.len() < n;
    if opt >= 2 {
        *multi_opt += 1;
    }
    if coll {
        *key_collide += 1;
    }
    if opt >= 2 && coll {
        *both += 1;
    }
    for k in &m.kids {
        collision_probes(&k.node, multi_opt, key_collide, both);
    }
}

fn exec_process_twin(c: &crate::cli::CliCase, ctr: &mut Ctr) -> Result<Exec, String> {
    let Some(te) = c.twin_entropy else { return Ok(super::skip("no_twin_entropy")) };
    let sb = std::path::PathBuf::from(format!("{}/work/C05/sb-{}", crate::driver::verif_dir(), std::process::id()));
    let a = crate::cli::run_cli(c, c.entropy, &sb)?;
    let b = crate::cli::run_cli(c, te, &sb)?;
    bump(ctr, "fault.process_entropy_twin");
    if a.report.is_empty() {
        return Err("shim not live: the child produced an empty shim report".into());
    }
    let mut violation = None;
    if a.exit != b.exit || a.stdout != b.stdout || a.after.bytes != b.after.bytes {
        violation = Some(Violation {
            class: "render_differs_across_processes".into(),
            detail: format!(
                "the CLI run twice on the same input with hash entropies {:032x} / {:032x} produced\n{}{}\n--- and ---\n{}{}",
                c.entropy,
                te,
                String::from_utf8_lossy(&a.stdout),
                String::from_utf8_lossy(&a.after.bytes),
                String::from_utf8_lossy(&b.stdout),
                String::from_utf8_lossy(&b.after.bytes)
            ),
        });
    }
    let mut fp = Fnv::new();
    fp.str(&c.to_j().to_string());
    let mut tr = Fnv::new();
    tr.bytes(&a.stdout);
    tr.bytes(&a.after.bytes);
    tr.bytes(&b.stdout);
    tr.u64(a.exit.unwrap_or(-1) as u64);
    Ok(Exec { violation, trace: tr.0, fingerprint: fp.0, nontrivial: a.exit == Some(0), sim_steps: a.fired.calls + b.fired.calls, discarded: None, shape: 0, env_sig: 0 })
}

impl Prop for C05 {
    fn id(&self) -> &'static str {
        "C05"
    }
    fn runs(&self, tier: &str) -> u64 {
        if tier == "thorough" {
            4_000_000
        } else {
            150_000
        }
    }
    fn gen(&self, seed: u64) -> Scenario {
        let mut rng = Rng::new(seed);
        if rng.pct(2) {
            // process twin: the shipped binary run twice under the shim with two different hash entropies
            let mut cfg = GenCfg::draw(&mut rng, true);
            cfg.p_absent = *rng.pick(&[30, 60]);
            cfg.p_selfclose = *rng.pick(&[0, 50]);
            let (_sk, docs) = super::gen_history(&mut rng, &cfg, 1);
            let by_name = rng.pct(30);
            let serde_xml_rs = rng.pct(30);
            let mut opt_args = Vec::new();
            if by_name {
                opt_args.push("--sort=name".to_string());
            }
            if serde_xml_rs {
                opt_args.push("--parser=serde-xml-rs".to_string());
            }
            return Scenario::Cli(crate::cli::CliCase {
                input_name: "in.xml".into(),
                input: crate::cli::InState::Present(docs[0].ser()),
                output_name: "out.rs".into(),
                output: if rng.pct(50) { crate::cli::OutState::Stdout } else { crate::cli::OutState::New },
                opt_args,
                serde_xml_rs,
                by_name,
                derive: None,
                plan: vec![],
                entropy: rng.u128(),
                twin_entropy: Some(rng.u128()),
                sweep: false,
            });
        }
        let bias = rng.pct(85);
        let mut cfg = GenCfg::draw(&mut rng, bias);
        if bias && rng.pct(60) {
            // a small pool made of colliding names only: collisions under demotion become the common case
            cfg.elem_names.truncate(rng.range(2, 4));
            cfg.max_kids = cfg.max_kids.max(3);
        }
        // entropy can only matter where children get demoted: make absences common
        if rng.pct(70) {
            cfg.p_absent = *rng.pick(&[30, 60]);
        }
        if rng.pct(50) {
            cfg.p_selfclose = 0; // the Start/End form is the one that takes the snapshot path
        }
        let root = rng.pick(&["r", "root", "a", "Foo"]).to_string();
        let mut budget = *rng.pick(&[3usize, 6, 12]);
        let sk = gen_skel(&mut rng, &cfg, &root, 0, &mut budget);
        let deep = rng.pct(3);
        let k = if deep { 1 } else { rng.range(1, 4) };
        let docs: Vec<_> = if deep {
            // one deep chain (depth 120..=200) with a leaf: anything that depends on nesting depth shows here
            let depth = rng.range(120, 200);
            let mut cur = crate::dom::Elem::new("leaf");
            cur.kids.push(crate::dom::Node::Text("x".into()));
            for i in (0..depth - 1).rev() {
                let mut e = crate::dom::Elem::new(&format!("n{}", i % 7));
                e.kids.push(crate::dom::Node::Elem(cur));
                cur = e;
            }
            if rng.pct(35) {
                // the same long chain of *distinct* names below two different parents: every struct name occurs twice
                // with a long identical ancestry, which is the expensive case for telling struct names apart
                let l = rng.range(20, 70);
                let chain = |leaf_text: &str| {
                    let mut cur = crate::dom::Elem::new("leaf");
                    cur.kids.push(crate::dom::Node::Text(leaf_text.into()));
                    for i in (0..l).rev() {
                        let mut e = crate::dom::Elem::new(&format!("c{i}"));
                        e.kids.push(crate::dom::Node::Elem(cur));
                        cur = e;
                    }
                    cur
                };
                let mut root = crate::dom::Elem::new("r");
                for pn in ["p", "q", "s"].iter().take(rng.range(2, 3)) {
                    let mut p = crate::dom::Elem::new(pn);
                    p.kids.push(crate::dom::Node::Elem(chain("x")));
                    root.kids.push(crate::dom::Node::Elem(p));
                }
                vec![crate::dom::Doc::plain(root)]
            } else {
                vec![crate::dom::Doc::plain(cur)]
            }
        } else if rng.pct(2) {
            // very wide position: dozens of struct-producing children under one parent (anything that renders or
            // collects them out of order, e.g. on worker threads, shows here)
            let which = if rng.pct(15) { 4 } else { 2 };
            super::histories::family(&mut rng, &cfg, which).unwrap()
        } else {
            (0..k).map(|_| gen_doc(&mut rng, &cfg, &sk)).collect()
        };
        let mut docs = docs;
        if !deep && rng.pct(3) {
            // namespace aliases: two to four prefixes bound to one or two namespace names, used on the same few local
            // names under one parent (whoever resolves prefixes has to pick "the" prefix of a namespace somehow)
            let prefixes = ["p", "q", "r", "s"];
            let np = rng.range(2, 4);
            let uris = ["urn:a", "urn:b"];
            let locals = ["item", "name", "id"];
            let nd = rng.range(1, 3);
            docs = (0..nd)
                .map(|_| {
                    let mut root = crate::dom::Elem::new("r");
                    for pf in prefixes.iter().take(np) {
                        let uri = if rng.pct(75) { uris[0] } else { uris[1] };
                        root.attrs.push(crate::dom::Attr { name: format!("xmlns:{pf}"), value: uri.to_string(), quote: b'"' });
                    }
                    for _ in 0..rng.range(2, 7) {
                        let mut e = crate::dom::Elem::new(&format!("{}:{}", prefixes[rng.below(np)], rng.pick(&locals)));
                        e.selfclose = rng.pct(50);
                        if rng.pct(40) {
                            e.kids.push(crate::dom::Node::Elem(crate::dom::Elem::new(&format!("{}:{}", prefixes[rng.below(np)], rng.pick(&locals)))));
                        }
                        root.kids.push(crate::dom::Node::Elem(e));
                    }
                    crate::dom::Doc::plain(root)
                })
                .collect();
        }
        // flat collision parent (drawn from a side stream, so that every other seed keeps the scenario it had): one
        // parent whose children - and some attributes - are a random permutation of four or more names of ONE group
        // that all ask for the same identifier, including names that merely look like an already numbered identifier
        // (item_3). Whatever hands out the numbers sees three or more clashes with look-alikes between them in every
        // order of first appearance; a numbering that depends on the iteration order of a hashed set shows here.
        let mut side = Rng::new(seed ^ 0xF1A7_C011_1DE5);
        if !deep && side.pct(6) {
            let groups: &[&[&str]] = &[
                &["item", "Item", "ITEM", "item_3", "item_1", "item_2", "item_4", "iTEM"],
                &["Foo", "foo", "FOO", "foo_1", "foo_2", "Foo_1", "fOO"],
                &["a-b", "a_b", "a.b", "a_b_1", "a_b_2", "A-B", "a_b_3"],
                &["type", "Type", "TYPE", "type_1", "r_type", "type_2", "r_type_1"],
                &["text", "Text", "TEXT", "text_content", "text_1", "text_2", "text_content_1"],
            ];
            let g = *side.pick(groups);
            let nd = side.range(1, 2);
            let under_root = side.pct(50);
            docs = (0..nd)
                .map(|_| {
                    let mut names: Vec<&str> = g.iter().copied().filter(|_| side.pct(80)).collect();
                    while names.len() < 4 {
                        let n = *side.pick(g);
                        if !names.contains(&n) {
                            names.push(n);
                        }
                    }
                    // Fisher-Yates with the side stream
                    for i in (1..names.len()).rev() {
                        names.swap(i, side.below(i + 1));
                    }
                    let mut p = crate::dom::Elem::new(if under_root { "r" } else { "p" });
                    for n in &names {
                        if side.pct(20) && !n.contains('.') {
                            p.attrs.push(crate::dom::Attr { name: n.to_string(), value: "v".into(), quote: b'"' });
                        } else {
                            let mut e = crate::dom::Elem::new(n);
                            e.selfclose = side.pct(40);
                            if !e.selfclose && side.pct(50) {
                                e.kids.push(crate::dom::Node::Text("t".into()));
                            }
                            p.kids.push(crate::dom::Node::Elem(e));
                        }
                    }
                    if under_root {
                        crate::dom::Doc::plain(p)
                    } else {
                        let mut root = crate::dom::Elem::new("r");
                        root.kids.push(crate::dom::Node::Elem(p));
                        crate::dom::Doc::plain(root)
                    }
                })
                .collect();
        }
        if !deep && side.pct(4) {
            // wide sparse parent (same side stream): 8..=14 child names, a core subset that keeps coming back, other
            // occurrences that lack exactly the core - two colliding names demoted in one pass, in whatever order the
            // demotion walks them
            docs = super::histories::family(&mut side, &cfg, 9).unwrap();
        }
        if !deep && rng.pct(8) {
            // a stream that ends early, at a token boundary: the reader reports a plain end of input
            let i = rng.below(docs.len());
            docs[i].unclosed = true;
        }
        let k = docs.len();
        let plan_of = |rng: &mut Rng, bytes: &[u8]| if rng.pct(80) { Plan::slice() } else { Plan::draw_transparent(rng, bytes) };
        let steps: Vec<Step> = (0..k)
            .map(|i| {
                let b = docs[i].ser();
                Step { input: Input::Doc(i), plan: plan_of(&mut rng, &b), cfg: 0 }
            })
            .collect();
        let twins = rng.range(2, 4);
        let mut replicas: Vec<Replica> = (0..twins)
            .map(|t| Replica { role: format!("entropy-twin-{t}"), entropy: rng.u128(), steps: steps.clone(), warmup: vec![] })
            .collect();
        if rng.pct(35) {
            // veteran twin: its thread has already parsed other inputs (valid, hostile, failing mid-stream) before
            // the history starts; thread-local or process-wide state left behind by them must not show
            let n = rng.range(1, 4);
            let mut warm = Vec::new();
            if !deep && rng.pct(50) {
                // near-miss documents: the history's own documents with the boundary between a parent's and a child's
                // name shifted by one character, or the case of a name changed - anything cached on this thread under a
                // lossy key (concatenation, case-folded name, ...) by them must not be served to the real history
                for d in &docs {
                    let mut v = d.clone();
                    crate::dom::shift_names(&mut rng, &mut v.root);
                    warm.push(Step { input: Input::Raw(v.ser()), plan: Plan::slice(), cfg: 0 });
                }
            }
            for _ in 0..n {
                let (bytes, _, _) = if deep { crate::mutate::deep_hostile(&mut rng) } else { crate::mutate::hostile(&mut rng) };
                let mut plan = if rng.pct(50) { Plan::slice() } else { Plan::draw_transparent(&mut rng, &bytes) };
                if !plan.slice && rng.pct(50) {
                    plan.fault = Plan::draw_fault(&mut rng, &bytes);
                }
                warm.push(Step { input: Input::Raw(bytes), plan, cfg: 0 });
            }
            let last = replicas.len() - 1;
            replicas[last].role = "veteran-twin".into();
            replicas[last].warmup = warm;
        }
        if rng.pct(30) {
            // logging twin: a host application has installed a logger at trace level (process-global state the unit
            // tests and the default CLI never have)
            let i = rng.below(replicas.len().max(2) - 1);
            replicas[i].role = format!("logging-{}", replicas[i].role);
        }
        if steps.len() > 1 && rng.pct(35) {
            // lazy twin: renders only once, after the last delivery - the same sequence of documents and the same
            // options must give the same bytes whether or not intermediate trees were rendered
            let e = rng.u128();
            replicas.push(Replica { role: "lazy-twin".into(), entropy: e, steps: steps.clone(), warmup: vec![] });
        } else if steps.len() > 1 && rng.pct(15) {
            // every document parsed into a fresh tree (a loop over files that reuses one variable)
            for r in replicas.iter_mut() {
                r.role = format!("restarting-{}", r.role);
            }
        }
        if rng.pct(15) {
            let i = rng.range(1, replicas.len() - 1);
            if replicas[i].steps.len() > 1 && replicas[i].warmup.is_empty() && !replicas[i].role.contains("lazy") {
                // migrating twin: every delivery on another fresh thread
                replicas[i].role = format!("migrating-{}", replicas[i].role);
            }
        }
        if rng.pct(30) {
            // environment twin: LANG / LC_* / TZ / HOME / PWD / RUST_LOG ... are set on this replica's thread only
            let i = rng.below(replicas.len());
            if i > 0 {
                replicas[i].role = format!("env-{}", replicas[i].role);
            }
        }
        if !replicas.iter().any(|r| r.role.contains("restarting") || r.role.contains("lazy")) {
            // C05's twins must receive identical deliveries: the park point is part of one twin's plan only, which is
            // fine for the reader (same bytes, same chunks) but the steps would compare unequal - so the plan of
            // *every* twin gets the same shape and only the first one actually parks (it is the only one that is
            // followed by a replica while it is stopped)
            if rng.pct(12) {
                let k = rng.below(steps.len());
                let len = docs[k].ser().len();
                let n = rng.range(5, 60);
                let cuts: Vec<usize> = (1..len).filter(|i| i % n == 0).collect();
                let at = rng.below(cuts.len() + 2);
                for r in replicas.iter_mut() {
                    if r.steps[k].plan.slice || r.steps[k].plan.cuts.is_empty() {
                        r.steps[k].plan = Plan::whole();
                        r.steps[k].plan.cuts = cuts.clone();
                    }
                    r.steps[k].plan.park_at = Some(at.min(r.steps[k].plan.cuts.len() + 1));
                }
                replicas[0].role = format!("parking-{}", replicas[0].role);
            }
        }
        if rng.pct(25) {
            let i = replicas.len() - 1;
            replicas[i].role = format!("revopts-{}", replicas[i].role);
        }
        for i in 1..replicas.len() {
            if !replicas[i].role.contains("lazy") && !replicas[i].role.contains("restarting") && !replicas[i].role.contains("parking") && rng.pct(30) {
                // slow / re-entrant / probing variants of a twin (migrating, logging and env are drawn above)
                let before = replicas[i].role.clone();
                super::decorate_role(&mut rng, &mut replicas[i]);
                if replicas[i].role.contains("migrating") && !before.contains("migrating") && !replicas[i].warmup.is_empty() {
                    replicas[i].role = before;
                }
            }
        }
        let derive = rng.pick(&["Serialize, Deserialize", "", "Debug", "Debug, Clone, Debug", "Serialize, Deserialize, Debug, Serialize", "B, A, C, A, B", "serde::Serialize, serde::Deserialize", "some::very::long::qualified::path::to::a::derive::macro::that::goes::on::and::on::and::on::for::more::than::a::hundred::columns::Trait"]).to_string();
        let mut opts = all_opts(&derive);
        if rng.pct(50) {
            // options a caller sets through the public fields: other text identifier / attribute prefix
            opts.push(crate::session::RenderOpt { serde_xml_rs: false, by_name: rng.pct(50), derive: derive.clone(), attribute_prefix: Some(rng.pick(&["attr_", "", "@@"]).to_string()), text_identifier: Some(rng.pick(&["$value", "#text", "body"]).to_string()) });
            opts.push(crate::session::RenderOpt { serde_xml_rs: true, by_name: rng.pct(50), derive: derive.clone(), attribute_prefix: None, text_identifier: Some("$value".into()) });
        }
        Scenario::Session(Session { alts: vec![None; docs.len()], docs, replicas, opts })
    }
    fn exec(&self, sc: &Scenario, ctr: &mut Ctr) -> Result<Exec, String> {
        if let Scenario::Cli(c) = sc {
            return exec_process_twin(c, ctr);
        }
        let Scenario::Session(s) = sc else { return Ok(super::skip("not_a_session")) };
        for r in &s.replicas {
            for st in r.steps.iter().chain(r.warmup.iter()) {
                if let Input::Raw(b) = &st.input {
                    if crate::mutate::rough_depth(b) > 200 {
                        return Ok(super::skip("depth_over_200"));
                    }
                }
            }
        }
        if s.replicas.iter().any(|r| r.warmup.iter().any(|w| !matches!(w.input, Input::Raw(_)))) {
            return Ok(super::skip("warmup_must_be_raw"));
        }
        // twins must receive identical deliveries; plan fields that only describe the environment around a delivery
        // (park / re-entrancy / simulated delay) may differ
        let same = |a: &Vec<Step>, b: &Vec<Step>| {
            a.len() == b.len()
                && a.iter().zip(b.iter()).all(|(x, y)| {
                    let (mut p, mut q) = (x.plan.clone(), y.plan.clone());
                    for pl in [&mut p, &mut q] {
                        pl.park_at = None;
                        pl.nested_at = None;
                        pl.delay_at = None;
                        pl.delay_secs = 0;
                    }
                    // a slice plan and a whole (one chunk) plan deliver the same bytes the same way
                    let norm = |pl: &mut Plan| {
                        if pl.slice {
                            *pl = Plan::whole();
                        }
                    };
                    norm(&mut p);
                    norm(&mut q);
                    x.input == y.input && x.cfg == y.cfg && p == q
                })
        };
        if s.replicas.iter().any(|r| !same(&r.steps, &s.replicas[0].steps)) {
            // entropy twins must receive identical deliveries; anything else is not a C05 scenario
            return Ok(Exec { violation: None, trace: 0, fingerprint: 0, nontrivial: false, sim_steps: 0, discarded: Some("twins_differ".into()), shape: 0, env_sig: 0 });
        }
        let want = Want { renders: true, render_twice: true, obs: false, obs_sorted: false };
        let outs = run_session(s, &want)?;
        let trace = trace_hash(&outs);
        let mut violation = None;
        let mut sim_steps = 0;
        let mut order_changed = false;
        for (ri, r) in outs.iter().enumerate() {
            add(ctr, "getrandom_calls", r.getrandom_calls);
            for n in &r.env_read {
                bump(ctr, &format!("reach.library_read_environment_variable.{n}"));
            }
            if s.replicas[ri].role.starts_with("env-") {
                bump(ctr, "fault.populated_environment_twin");
            }
            let lazy = s.replicas[ri].role.contains("lazy-");
            for (si, st) in r.steps.iter().enumerate() {
                sim_steps += st.stats.fill_calls + 1;
                if lazy && si + 1 != r.steps.len() {
                    continue;
                }
                add(ctr, "fault.eintr", st.stats.eintr_fired);
                if let Some(p) = &st.panic {
                    violation.get_or_insert(Violation { class: "panic".into(), detail: format!("replica {ri} step {si}: {p}") });
                }
                if st.renders2 != st.renders {
                    violation.get_or_insert(Violation {
                        class: "render_differs_within_thread".into(),
                        detail: format!("replica {ri} step {si}: two renderings on one thread differ"),
                    });
                }
                let base = &outs[0].steps[si];
                if st.ok != base.ok {
                    violation.get_or_insert(Violation {
                        class: "result_differs_across_entropy".into(),
                        detail: format!("step {si}: replica 0 ok={} replica {ri} ok={}", base.ok, st.ok),
                    });
                }
                if st.api != base.api {
                    order_changed = true;
                }
                for (oi, (a, b)) in base.renders.iter().zip(st.renders.iter()).enumerate() {
                    if a != b {
                        violation.get_or_insert(Violation {
                            class: "render_differs_across_entropy".into(),
                            detail: format!(
                                "after step {si}, options {}: entropy {:032x} renders\n{a}\nentropy {:032x} renders\n{b}",
                                s.opts[oi].to_j().to_string(),
                                s.replicas[0].entropy,
                                s.replicas[ri].entropy
                            ),
                        });
                        break;
                    }
                }
            }
        }
        bump(ctr, "fault.entropy_twin_sessions");
        super::count_decorations(s, ctr);
        if s.replicas.iter().any(|r| !r.warmup.is_empty()) {
            bump(ctr, "fault.veteran_thread_twin");
        }
        if s.replicas.iter().any(|r| r.role.contains("lazy-")) {
            bump(ctr, "fault.lazy_render_twin");
        }
        if s.replicas.iter().any(|r| r.role.contains("restarting-")) {
            bump(ctr, "fault.restarting_session");
        }
        if s.replicas.iter().any(|r| r.role.starts_with("logging")) {
            bump(ctr, "fault.logging_enabled_twin");
        }
        if s.docs.iter().any(|d| d.root.depth() >= 120) {
            bump(ctr, "reach.deep_chain_history");
        }
        add(ctr, "entropy_twins", s.replicas.len() as u64);
        if order_changed {
            bump(ctr, "reach.entropy_changed_child_order");
        }
        let refs: Vec<&crate::dom::Doc> = s.docs.iter().collect();
        let m = infer(&refs);
        let (mut mo, mut kc, mut both) = (0, 0, 0);
        collision_probes(&m, &mut mo, &mut kc, &mut both);
        if mo > 0 {
            bump(ctr, "reach.position_with_2plus_optional_children");
        }
        if kc > 0 {
            bump(ctr, "reach.field_key_collision");
        }
        if both > 0 {
            bump(ctr, "reach.collision_under_multi_demotion");
        }
        let mut fp = Fnv::new();
        for d in &s.docs {
            fp.bytes(&d.ser());
        }
        let mut shape = String::new();
        m.shape(&mut shape);
        Ok(Exec {
            violation,
            trace,
            fingerprint: fp.0,
            nontrivial: s.replicas.len() >= 2 && both > 0,
            sim_steps,
            discarded: None,
            shape: crate::rng::hash_str(&shape),
            env_sig: 0,
        })
    }
    fn rule(&self) -> &'static str {
        "98% of cases: one history of 1-4 generated documents parsed+extended by 2-4 entropy twins (fresh threads, PRNG-chosen RandomState keys) and rendered with all preset x sort combinations, twice per thread, after every delivery; distinct = distinct serialised history; non-trivial = >=2 twins AND some schema position has >=2 optional children AND two sibling names with the same snake-case field key (the only shape where hash order can reach the output); 2% of cases are process twins: the shipped CLI binary run twice on one generated document under the LD_PRELOAD shim with two different entropies, outputs compared byte for byte (non-trivial when the run succeeds)"
    }
    fn real_components(&self) -> Vec<&'static str> {
        vec!["xml_schema_generator (parser, element, identifier, necessity)", "quick-xml Reader", "std HashMap/RandomState/SipHash", "std BufReader (when drawn)"]
    }
    fn stub_components(&self) -> Vec<&'static str> {
        vec!["getrandom(2): 16 bytes per thread supplied by the simulator", "byte source (SimReader) when a plan is drawn"]
    }
    fn assumptions(&self) -> Vec<&'static str> {
        vec![
            "std RandomState draws its per-thread keys through the interposable getrandom symbol (canary checked on every batch)",
            "allocation addresses are varied (each replica thread starts with its own pattern of live allocations) but not controlled; hash entropy, thread history and log level are controlled",
        ]
    }
}
