//! C08 — errors are reported faithfully and only when the input is at fault. The expected verdict is
//! computed by an independent pass over the same reader events in stream order (same plan, fresh reader).
//! Transparent faults (chunking, EINTR) must never surface; a hard I/O error is what the reader reports
//! and must never be swallowed or converted into Ok(partial).

use super::{add, bump, skip, Ctr, Exec, Prop, Scenario, Violation};
use crate::mutate::{base_document, hostile, rough_depth};
use crate::rng::{Fnv, Rng};
use crate::session::{expected_verdict, run_session, trace_hash, ErrObs, Input, Replica, Session, Step, StepOut, Want};
use crate::simreader::{Fault, Plan};
use crate::verdict::Verdict;

pub struct C08;

/// None = agreement; Some((class, detail)) otherwise
pub fn compare(expected: &Verdict, got: &StepOut) -> Option<(String, String)> {
    if let Some(p) = &got.panic {
        return Some(("panic".into(), p.clone()));
    }
    match (expected, got.ok, &got.err) {
        (Verdict::Ok { .. }, true, _) => None,
        (Verdict::Ok { .. }, false, Some(e)) => Some((format!("spurious_error:{}", e.variant), format!("reader events give no reason to fail, got {}", e.display))),
        (v, true, _) => Some((format!("swallowed_error:{}", v.class().split(':').next().unwrap_or("")), format!("expected {v:?}, got Ok"))),
        (v, false, Some(e)) => match_err(v, e),
        (_, false, None) => Some(("no_result".into(), "neither Ok nor Err observed".into())),
    }
}

fn match_err(v: &Verdict, e: &ErrObs) -> Option<(String, String)> {
    let wrong = |why: &str| Some((format!("wrong_error:{}", v.class().split(':').next().unwrap_or("")), format!("{why}: expected {v:?}, got {} / {}", e.variant, e.display)));
    match v {
        Verdict::Syntax { pos, dbg, class } => {
            if class.starts_with("Io(") && e.variant != "QuickXmlError" {
                // an injected hard I/O failure is not a syntax error: any error variant reports it faithfully;
                // only if it is reported as the reader's error must position and payload be the reader's
                return None;
            }
            if e.variant != "QuickXmlError" {
                return wrong("variant");
            }
            if e.pos != Some(*pos) {
                return wrong("byte position");
            }
            if &e.inner_dbg != dbg {
                return wrong("carried reader error");
            }
            None
        }
        Verdict::Attr(a) => {
            if e.variant != "AttrError" || e.attr.as_ref() != Some(a) {
                return wrong("attribute error");
            }
            None
        }
        Verdict::Utf8 { bytes, .. } => {
            if e.variant != "FromUtf8Error" || e.utf8.as_ref() != Some(bytes) {
                return wrong("utf-8 error payload");
            }
            None
        }
        Verdict::NoRoot => {
            if e.variant != "ParsingError" {
                return wrong("variant");
            }
            None
        }
        Verdict::Ok { .. } => None,
    }
}

impl Prop for C08 {
    fn id(&self) -> &'static str {
        "C08"
    }
    fn runs(&self, tier: &str) -> u64 {
        if tier == "thorough" {
            30_000_000
        } else {
            800_000
        }
    }
    fn gen(&self, seed: u64) -> Scenario {
        let mut rng = Rng::new(seed);
        let n = *rng.pick(&[1usize, 1, 2, 3]);
        // fault-free and fault-injecting configurations are separate runs, reported separately
        let with_hard_faults = rng.pct(35);
        let mut steps = Vec::new();
        for _ in 0..n {
            let bytes = if rng.pct(25) {
                // well-formed documents inside every prolog / comment / PI / DOCTYPE combination
                base_document(&mut rng)
            } else {
                hostile(&mut rng).0
            };
            let mut plan = if rng.pct(25) { Plan::slice() } else { Plan::draw_transparent(&mut rng, &bytes) };
            if with_hard_faults && !plan.slice && rng.pct(70) {
                plan.fault = Plan::draw_fault(&mut rng, &bytes);
                plan.io_once = rng.pct(30);
            }
            // 12% of deliveries: the caller has read 1-3 events itself (skipped prolog / envelope element)
            let mut cfg = if rng.pct(12) { (rng.range(1, 3) as u16) << crate::session::CFG_PRECONSUME_SHIFT } else { 0 };
            if rng.pct(10) {
                // the caller repeats a failed call on the same reader (what it then reads is the rest of the stream)
                cfg |= crate::session::CFG_CARRY_ON;
            }
            steps.push(Step { input: Input::Raw(bytes), plan, cfg });
        }
        let mut replicas = vec![Replica { role: "client".into(), entropy: rng.u128(), steps, warmup: vec![] }];
        if rng.pct(20) {
            super::add_warmup(&mut rng, &mut replicas[0], &[]);
        }
        super::decorate_role(&mut rng, &mut replicas[0]);
        Scenario::Session(Session { docs: vec![], alts: vec![], replicas, opts: vec![] })
    }
    fn exec(&self, sc: &Scenario, ctr: &mut Ctr) -> Result<Exec, String> {
        let Scenario::Session(s) = sc else { return Ok(super::skip("not_a_session")) };
        for r in &s.replicas {
            for st in &r.steps {
                match &st.input {
                    Input::Raw(b) if rough_depth(b) <= 200 => {}
                    Input::Raw(_) => return Ok(skip("depth_over_200")),
                    _ => return Ok(skip("not_a_byte_case")),
                }
                if st.cfg & !(crate::session::CFG_PRECONSUME_MASK | crate::session::CFG_CARRY_ON) != 0 {
                    return Ok(skip("non_default_reader_config"));
                }
                if st.cfg & crate::session::CFG_PRECONSUME_MASK != 0 {
                    bump(ctr, "fault.caller_preconsumed_events");
                }
            }
        }
        let want = Want::default();
        let outs = run_session(s, &want)?;
        super::count_decorations(s, ctr);
        let trace = trace_hash(&outs);
        let mut violation = None;
        let mut sim_steps = 0;
        let mut fp = Fnv::new();
        let mut env = Fnv::new();
        let mut nontrivial = false;
        for (ri, r) in outs.iter().enumerate() {
            let mut has_tree = false;
            for (si, st) in r.steps.iter().enumerate() {
                let step = &s.replicas[ri].steps[si];
                let bytes = s.bytes_of(&step.input);
                sim_steps += st.stats.fill_calls + 1;
                let hard = st.stats.io_fired + st.stats.truncated > 0;
                add(ctr, "fault.eintr", st.stats.eintr_fired);
                add(ctr, "fault.io_error", st.stats.io_fired);
                add(ctr, "fault.truncated_stream", st.stats.truncated);
                bump(ctr, if hard { "deliveries.with_hard_fault" } else { "deliveries.fault_free_or_transparent" });
                let exp = expected_verdict(&bytes, &step.plan, step.cfg, !has_tree);
                bump(ctr, &format!("reach.verdict.{}", exp.class()));
                if let Verdict::Syntax { pos, .. } = &exp {
                    if let Some(last) = step.plan.cuts.last() {
                        if *pos as usize > *last {
                            bump(ctr, "reach.error_position_in_last_chunk");
                        }
                    }
                }
                if !exp.is_ok() || st.stats.eintr_fired > 0 || hard {
                    nontrivial = true;
                }
                if let Some((class, detail)) = compare(&exp, st) {
                    let class = if hard { format!("{class}:under_hard_fault") } else { class };
                    violation.get_or_insert(Violation {
                        class,
                        detail: format!("step {si} ({}): {detail}", if has_tree { "extend_struct" } else { "into_struct" }),
                    });
                }
                has_tree = st.has_tree;
                fp.bytes(&bytes);
                fp.str(&step.plan.to_j().to_string());
                env.u64(
                    (step.plan.cuts.len().min(5) as u64) << 12
                        | (step.plan.eintr.len().min(2) as u64) << 10
                        | (match step.plan.fault {
                            Fault::None => 0u64,
                            Fault::Io { .. } => 1,
                            Fault::Truncate { .. } => 2,
                        }) << 8
                        | crate::rng::hash_str(&exp.class()) & 0xff,
                );
            }
        }
        Ok(Exec { violation, trace, fingerprint: fp.0, nontrivial, sim_steps, discarded: None, shape: 0, env_sig: env.0 })
    }
    fn rule(&self) -> &'static str {
        "a case = 1-3 byte strings (hostile as in C07, or well-formed documents wrapped in generated prolog/comment/PI/DOCTYPE combinations) delivered as into_struct then extend_struct with the default reader configuration through a PRNG-drawn plan; 65% of cases inject only transparent faults (chunking, EINTR, BufReader), 35% also a hard I/O error or truncation; the result of every delivery is compared with the verdict of an independent drain of the same reader events (is_ok, variant, byte position + carried reader error, AttrError value, offending UTF-8 bytes, no-root only for the initial parse); distinct = distinct (bytes, plan) sequence; non-trivial = expected verdict is an error, or an EINTR / hard fault fired"
    }
    fn real_components(&self) -> Vec<&'static str> {
        vec!["xml_schema_generator::{into_struct, extend_struct, ParserError}", "quick-xml buffered reader (also used, in a separate instance, as the definition of what the reader reports)", "std BufReader"]
    }
    fn stub_components(&self) -> Vec<&'static str> {
        vec!["byte source: SimReader", "getrandom(2) per replica thread"]
    }
    fn assumptions(&self) -> Vec<&'static str> {
        vec![
            "quick-xml's event stream over the same bytes and plan is the definition of 'what the underlying reader reports'",
            "Display wording and the ParsingError message text are not compared; the statement only says the error carries the reader's error and position",
        ]
    }
}
