//! One module per claimed property: a scenario generator (everything drawn from the run's PRNG), an
//! executor that drives the real code through the seams, and an oracle.

use std::collections::BTreeMap;

use crate::json::J;
use crate::session::Session;

pub mod c05;
pub mod c07;
pub mod c08;
pub mod c11;
pub mod c12;
pub mod histories;

pub type Ctr = BTreeMap<String, u64>;

pub fn bump(c: &mut Ctr, k: &str) {
    *c.entry(k.to_string()).or_insert(0) += 1;
}
pub fn add(c: &mut Ctr, k: &str, n: u64) {
    if n > 0 {
        *c.entry(k.to_string()).or_insert(0) += n;
    }
}

#[derive(Clone, Debug)]
pub struct Violation {
    /// stable violation class; shrinking preserves it
    pub class: String,
    pub detail: String,
}

#[derive(Clone, Debug)]
pub enum Scenario {
    Session(Session),
    Cli(crate::cli::CliCase),
}

impl Scenario {
    pub fn to_j(&self) -> J {
        match self {
            Scenario::Session(s) => J::obj().set("kind", J::s("session")).set("session", s.to_j()),
            Scenario::Cli(c) => J::obj().set("kind", J::s("cli")).set("cli", c.to_j()),
        }
    }
    /// compact, human-readable form used for the `samples` of the evidence file (replay files use `to_j`)
    pub fn sample_j(&self) -> J {
        match self {
            Scenario::Cli(c) => c.to_j(),
            Scenario::Session(s) => {
                let xml = |d: &crate::dom::Doc| J::s(String::from_utf8_lossy(&d.ser()).to_string());
                let mut o = J::obj();
                if !s.docs.is_empty() {
                    o.put("documents", J::Arr(s.docs.iter().map(xml).collect()));
                }
                if s.alts.iter().any(|a| a.is_some()) {
                    o.put("rewritten_twins", J::Arr(s.alts.iter().map(|a| a.as_ref().map(xml).unwrap_or(J::Null)).collect()));
                }
                let reps: Vec<J> = s
                    .replicas
                    .iter()
                    .take(6)
                    .map(|r| {
                        let steps: Vec<J> = r
                            .steps
                            .iter()
                            .map(|st| {
                                let what = match &st.input {
                                    crate::session::Input::Doc(i) => format!("doc{i}"),
                                    crate::session::Input::Alt(i) => format!("rewritten{i}"),
                                    crate::session::Input::Raw(b) => format!("bytes:{}", String::from_utf8_lossy(b).chars().take(120).collect::<String>()),
                                };
                                let p = &st.plan;
                                let how = if p.slice {
                                    "slice".to_string()
                                } else {
                                    format!(
                                        "chunks={} eintr@{:?} bufreader={} fault={}",
                                        p.cuts.len() + 1,
                                        p.eintr,
                                        p.bufreader_cap,
                                        match &p.fault {
                                            crate::simreader::Fault::None => "none".to_string(),
                                            crate::simreader::Fault::Io { at, kind } => format!("io{}:{kind}@{at}", if p.io_once { "-once" } else { "" }),
                                            crate::simreader::Fault::Truncate { at } => format!("eof@{at}"),
                                        }
                                    )
                                };
                                J::s(format!("{what} via {how} cfg={}", st.cfg))
                            })
                            .collect();
                        J::obj().set("role", J::s(&r.role)).set("entropy", J::s(format!("{:032x}", r.entropy))).set("deliveries", J::Arr(steps))
                    })
                    .collect();
                if s.replicas.len() > 6 {
                    o.put("replicas_total", J::Int(s.replicas.len() as i64));
                }
                o.put("replicas", J::Arr(reps));
                o.put("render_options", J::Arr(s.opts.iter().map(|r| r.to_j()).collect()));
                o
            }
        }
    }
    pub fn from_j(j: &J) -> Result<Scenario, String> {
        match j.str_of("kind")?.as_str() {
            "session" => Ok(Scenario::Session(Session::from_j(j.get("session").ok_or("no session")?)?)),
            "cli" => Ok(Scenario::Cli(crate::cli::CliCase::from_j(j.get("cli").ok_or("no cli case")?)?)),
            k => Err(format!("unknown scenario kind {k}")),
        }
    }
}

pub struct Exec {
    pub violation: Option<Violation>,
    pub trace: u64,
    pub fingerprint: u64,
    pub nontrivial: bool,
    pub sim_steps: u64,
    /// the scenario was rejected (precondition / harness cross-check); counted, never a verdict
    pub discarded: Option<String>,
    /// hash of the schema shape reached (0 = none)
    pub shape: u64,
    /// hash of the environment signature (chunking class x fault class x ...), 0 = none
    pub env_sig: u64,
}

pub trait Prop: Sync {
    fn id(&self) -> &'static str;
    fn runs(&self, tier: &str) -> u64;
    fn gen(&self, seed: u64) -> Scenario;
    fn exec(&self, sc: &Scenario, ctr: &mut Ctr) -> Result<Exec, String>;
    fn rule(&self) -> &'static str;
    fn real_components(&self) -> Vec<&'static str>;
    fn stub_components(&self) -> Vec<&'static str>;
    fn assumptions(&self) -> Vec<&'static str>;
}

pub fn all() -> Vec<Box<dyn Prop>> {
    vec![Box::new(c05::C05), Box::new(c07::C07), Box::new(c08::C08), Box::new(c11::C11), Box::new(c12::C12), Box::new(histories::C01), Box::new(histories::C03), Box::new(histories::C06), Box::new(histories::C09)]
}

pub fn by_id(id: &str) -> Option<Box<dyn Prop>> {
    all().into_iter().find(|p| p.id() == id)
}

/// faithful copy of convert_string's snake-casing, used for reach probes only (never for verdicts)
pub fn snake_key(name: &str) -> String {
    let s = name.replace(':', "_");
    let mut result = String::new();
    let mut last_upper = false;
    let mut last_us = false;
    for c in s.chars() {
        if c.is_uppercase() {
            if !result.is_empty() && !last_upper && !last_us {
                result.push('_');
            }
            for l in c.to_lowercase() {
                result.push(l);
            }
            last_upper = true;
            last_us = false;
        } else if !c.is_alphanumeric() {
            if !last_us {
                result.push('_');
            }
            last_upper = false;
            last_us = true;
        } else {
            result.push(c);
            last_upper = false;
            last_us = false;
        }
    }
    result
}

// ---------------------------------------------------------------------------------------------
// shared generators / helpers
// ---------------------------------------------------------------------------------------------

use crate::dom::{gen_doc, gen_skel, Doc, GenCfg, Skel};
use crate::rng::Rng;
use crate::session::RenderOpt;

pub fn all_opts(derive: &str) -> Vec<RenderOpt> {
    let mut v = Vec::new();
    for sx in [false, true] {
        for bn in [false, true] {
            v.push(RenderOpt::preset(sx, bn, derive));
        }
    }
    v
}

/// a history: k documents instantiated from one schema skeleton (common root)
pub fn gen_history(rng: &mut Rng, cfg: &GenCfg, k: usize) -> (Skel, Vec<Doc>) {
    let root = rng.pick(&["r", "root", "a", "Foo", "x:r", "type"]).to_string();
    let mut budget = *rng.pick(&[2usize, 4, 6, 12]);
    let sk = gen_skel(rng, cfg, &root, 0, &mut budget);
    let mut docs = Vec::new();
    for _ in 0..k {
        // per-document variation of the instantiation knobs: a child repeated / absent only in a later document
        let mut c = cfg.clone();
        if rng.pct(30) {
            c.p_absent = *rng.pick(&[0, 30, 60]);
            c.p_multi = *rng.pick(&[0, 30, 50]);
            c.p_attr_absent = *rng.pick(&[0, 20, 50]);
            c.p_hollow = *rng.pick(&[0, 10, 30]);
        }
        docs.push(gen_doc(rng, &c, &sk));
    }
    (sk, docs)
}

pub fn skip(reason: &str) -> Exec {
    Exec { violation: None, trace: 0, fingerprint: 0, nontrivial: false, sim_steps: 0, discarded: Some(reason.to_string()), shape: 0, env_sig: 0 }
}

/// cross-check of the generator against the reader: every generated document must be seen by quick-xml
/// with exactly the structure of its DOM; otherwise the harness (not the code under test) is wrong
pub fn crosscheck_docs(docs: &[&Doc]) -> Result<(), String> {
    for d in docs {
        let bytes = d.ser();
        let seen = crate::verdict::structure_from_events_opt(&bytes, d.unclosed)
            .map_err(|e| format!("generated document is not accepted by the reader: {e}: {}", String::from_utf8_lossy(&bytes)))?;
        if seen != crate::verdict::structure_of(&d.root) {
            return Err(format!("generated DOM and reader events disagree on {}", String::from_utf8_lossy(&bytes)));
        }
    }
    Ok(())
}

/// Give a replica a "veteran" thread: unrelated or near-miss deliveries executed (and thrown away) on its thread
/// before its own history starts. State they leave behind - caches, pools, counters, thread-locals, statics,
/// half-finished error paths - must not show in the replica's results.
pub fn add_warmup(rng: &mut Rng, r: &mut crate::session::Replica, docs: &[Doc]) {
    use crate::session::{Input, Step};
    use crate::simreader::Plan;
    if rng.pct(5) && !r.role.contains("+weathered") {
        // a weathered thread: hundreds or thousands of *failed* deliveries of an ordinary, nested document before the
        // history starts (whatever a failed call leaves behind - a counter not restored, a pool entry not returned,
        // a guard not released - accumulates)
        let depth = rng.range(6, 40);
        let mut b = Vec::new();
        for i in 0..depth {
            b.extend_from_slice(format!("<n{} k=\"v\">", i % 5).as_bytes());
        }
        let mut plan = Plan::slice();
        match rng.below(4) {
            0 => b.extend_from_slice(b"text</nope>"),
            1 => b.extend_from_slice(b"<bad a=1 >"),
            2 => b.extend_from_slice(b"<x>\xff\xfe</x>"),
            _ => {
                b.extend_from_slice(b"<title>some text");
                plan = Plan::whole();
                plan.fault = crate::simreader::Fault::Io { at: b.len() - 4, kind: "ConnectionReset".into() };
            }
        }
        r.warmup.push(Step { input: Input::Raw(b), plan, cfg: 0 });
        if rng.pct(50) {
            // ... interleaved with a good one
            r.warmup.push(Step { input: Input::Raw(b"<n0><n1>fine</n1></n0>".to_vec()), plan: Plan::slice(), cfg: 0 });
        }
        r.role = format!("{}+weathered{}", r.role, rng.pick(&[300usize, 1100, 1600, 5000]));
        return;
    }
    let n = rng.range(1, 3);
    for _ in 0..n {
        match rng.below(3) {
            0 if !docs.is_empty() => {
                let mut v = rng.pick(docs).clone();
                if v.root.depth() <= 60 {
                    crate::dom::shift_names(rng, &mut v.root);
                    r.warmup.push(Step { input: Input::Raw(v.ser()), plan: Plan::slice(), cfg: 0 });
                }
            }
            _ => {
                let (bytes, _, _) = crate::mutate::hostile(rng);
                if crate::mutate::rough_depth(&bytes) > 200 {
                    continue;
                }
                let mut plan = if rng.pct(50) { Plan::slice() } else { Plan::draw_transparent(rng, &bytes) };
                if !plan.slice && rng.pct(50) {
                    plan.fault = Plan::draw_fault(rng, &bytes);
                    plan.io_once = rng.pct(30);
                }
                r.warmup.push(Step { input: Input::Raw(bytes), plan, cfg: 0 });
            }
        }
    }
}

/// Environment decorations any replica can carry (encoded in its role, see session::run_session):
/// `logging-` the process-global log level is Trace while it runs; `env-` its thread sees a populated environment;
/// `migrating-` every one of its deliveries runs on another fresh thread.
pub fn decorate_role(rng: &mut Rng, r: &mut crate::session::Replica) {
    let mut pre = String::new();
    if rng.pct(18) {
        pre.push_str("logging-");
    }
    if rng.pct(18) {
        pre.push_str("env-");
    }
    if rng.pct(12) && r.steps.len() > 1 {
        pre.push_str("migrating-");
    }
    if rng.pct(12) {
        pre.push_str("probing-");
    }
    if rng.pct(10) && !r.steps.is_empty() {
        // re-entrant byte source on one delivery
        let k = rng.below(r.steps.len());
        let plan = &mut r.steps[k].plan;
        if plan.slice {
            *plan = crate::simreader::Plan::whole();
        }
        plan.nested_at = Some(rng.below(plan.cuts.len() + 2));
        pre.push_str("reentrant-");
    }
    if rng.pct(10) && !r.steps.is_empty() {
        // slow byte source: seconds, minutes, hours or more than a day of simulated time pass inside one delivery
        let k = rng.below(r.steps.len());
        let plan = &mut r.steps[k].plan;
        if plan.slice {
            *plan = crate::simreader::Plan::whole();
        }
        plan.delay_at = Some(rng.below(plan.cuts.len() + 2));
        // odd = simulated time passes; even = the wall clock is stepped back (see SimReader::fill_buf)
        plan.delay_secs = *rng.pick(&[11u64, 61, 3_601, 86_401, 2_678_401, 3, 601, 2, 3_600, 86_400]);
        pre.push_str("slow-");
    }
    if !pre.is_empty() {
        r.role = format!("{pre}{}", r.role);
    }
}

pub fn count_decorations(s: &crate::session::Session, ctr: &mut Ctr) {
    for r in &s.replicas {
        if r.role.contains("logging") {
            bump(ctr, "fault.replica_with_trace_logging");
        }
        if r.role.contains("env-") {
            bump(ctr, "fault.replica_with_populated_environment");
        }
        if r.role.contains("migrating") {
            bump(ctr, "fault.replica_migrating_between_threads");
        }
        if r.role.contains("probing") {
            bump(ctr, "fault.replica_probing_each_document_first");
        }
        if r.role.contains("reentrant") {
            bump(ctr, "fault.replica_with_reentrant_byte_source");
        }
        if r.role.contains("slow-") {
            bump(ctr, "fault.replica_with_slow_source_simulated_time_jump");
        }
        if r.role.contains("parking") {
            bump(ctr, "fault.replica_parked_mid_document_while_next_runs");
        }
        if r.role.contains("+weathered") {
            bump(ctr, "fault.replica_on_thread_weathered_by_failed_deliveries");
        }
        if r.steps.iter().any(|st| st.cfg & crate::session::CFG_CARRY_ON != 0) {
            bump(ctr, "fault.caller_carries_on_with_same_reader_after_error");
        }
    }
    if s.docs.iter().any(|d| d.unclosed) {
        bump(ctr, "fault.stream_ends_early_at_token_boundary");
    }
}

/// Interleaving: with some probability one replica (not the last) gets a park point inside one of its deliveries;
/// the replica after it then runs while the first is stopped mid-document (see session::run_session).
pub fn maybe_park(rng: &mut Rng, replicas: &mut [crate::session::Replica], pct: u32, len_of: &dyn Fn(&crate::session::Input) -> usize) {
    if replicas.len() < 2 || !rng.pct(pct) {
        return;
    }
    let i = rng.below(replicas.len() - 1);
    let r = &mut replicas[i];
    if r.steps.is_empty() || r.role.contains("migrating") {
        return;
    }
    let k = rng.below(r.steps.len());
    let len = len_of(&r.steps[k].input);
    let plan = &mut r.steps[k].plan;
    if plan.slice {
        *plan = crate::simreader::Plan::whole();
    }
    if plan.cuts.is_empty() {
        // the document must arrive in pieces, or the only places to stop are before its first and after its last byte
        let n = rng.range(5, 60);
        plan.cuts = (1..len).filter(|i| i % n == 0).collect();
    }
    plan.park_at = Some(rng.below(plan.cuts.len() + 2));
    r.role = format!("parking-{}", r.role);
}
