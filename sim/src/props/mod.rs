//! One module per claimed property: a scenario generator (everything drawn from the run's PRNG), an
//! executor that drives the real code through the seams, and an oracle.

use std::collections::BTreeMap;

use crate::json::J;
use crate::session::Session;

pub mod c05;

pub type Ctr = BTreeMap<String, u64>;

pub fn bump(c: &mut Ctr, k: &str) {
    *c.entry(k.to_string()).or_insert(0) += 1;
}
pub fn add(c: &mut Ctr, k: &str, n: u64) {
    if n > 0 {
        *c.entry(k.to_string()).or_insert(0) += n;
    }
}

#[derive(Clone, Debug)]
pub struct Violation {
    /// stable violation class; shrinking preserves it
    pub class: String,
    pub detail: String,
}

#[derive(Clone, Debug)]
pub enum Scenario {
    Session(Session),
}

impl Scenario {
    pub fn to_j(&self) -> J {
        match self {
            Scenario::Session(s) => J::obj().set("kind", J::s("session")).set("session", s.to_j()),
        }
    }
    pub fn from_j(j: &J) -> Result<Scenario, String> {
        match j.str_of("kind")?.as_str() {
            "session" => Ok(Scenario::Session(Session::from_j(j.get("session").ok_or("no session")?)?)),
            k => Err(format!("unknown scenario kind {k}")),
        }
    }
}

pub struct Exec {
    pub violation: Option<Violation>,
    pub trace: u64,
    pub fingerprint: u64,
    pub nontrivial: bool,
    pub sim_steps: u64,
    /// the scenario was rejected (precondition / harness cross-check); counted, never a verdict
    pub discarded: Option<String>,
    /// hash of the schema shape reached (0 = none)
    pub shape: u64,
    /// hash of the environment signature (chunking class x fault class x ...), 0 = none
    pub env_sig: u64,
}

pub trait Prop: Sync {
    fn id(&self) -> &'static str;
    fn runs(&self, tier: &str) -> u64;
    fn gen(&self, seed: u64) -> Scenario;
    fn exec(&self, sc: &Scenario, ctr: &mut Ctr) -> Result<Exec, String>;
    fn rule(&self) -> &'static str;
    fn real_components(&self) -> Vec<&'static str>;
    fn stub_components(&self) -> Vec<&'static str>;
    fn assumptions(&self) -> Vec<&'static str>;
}

pub fn all() -> Vec<Box<dyn Prop>> {
    vec![Box::new(c05::C05)]
}

pub fn by_id(id: &str) -> Option<Box<dyn Prop>> {
    all().into_iter().find(|p| p.id() == id)
}

/// faithful copy of convert_string's snake-casing, used for reach probes only (never for verdicts)
pub fn snake_key(name: &str) -> String {
    let s = name.replace(':', "_");
    let mut result = String::new();
    let mut last_upper = false;
    let mut last_us = false;
    for c in s.chars() {
        if c.is_uppercase() {
            if !result.is_empty() && !last_upper && !last_us {
                result.push('_');
            }
            for l in c.to_lowercase() {
                result.push(l);
            }
            last_upper = true;
            last_us = false;
        } else if !c.is_alphanumeric() {
            if !last_us {
                result.push('_');
            }
            last_upper = false;
            last_us = true;
        } else {
            result.push(c);
            last_upper = false;
            last_us = false;
        }
    }
    result
}
