//! C12 — the CLI is the library plus a header, and fails cleanly. The shipped binary runs in a generated
//! sandbox under the LD_PRELOAD shim; expected output is computed in-process from the same /repo library.

use std::path::PathBuf;

use quick_xml::reader::Reader;
use xml_schema_generator::into_struct;

use super::{add, bump, Ctr, Exec, Prop, Scenario, Violation};
use crate::cli::{run_cli, CliCase, CliOut, InState, OutState};
use crate::dom::GenCfg;
use crate::mutate::{base_document, hostile};
use crate::rng::{Fnv, Rng};
use crate::session::RenderOpt;

pub struct C12;

const HEADER: &str = "use serde::{Deserialize, Serialize};\n\n";
const EINTR: i32 = 4;

fn sandbox_dir() -> PathBuf {
    let t = std::thread::current().id();
    PathBuf::from(format!("{}/work/C12/sb-{}-{:?}", crate::driver::verif_dir(), std::process::id(), t).replace(['(', ')'], ""))
}

pub fn gen_case(rng: &mut Rng, faults: bool) -> CliCase {
    let input_name = rng.pick(&["in.xml", "input file.xml", "вход.xml", "a.b.c", "x", "-.xml", "-", "in.xml ", " in.xml", "in\t.xml"]).to_string();
    let input_name = if input_name == "-.xml" { "./-.xml".to_string() } else { input_name };
    let mut output_name = rng.pick(&["out.rs", "out put.rs", "выход.rs", "o", "sub.dir.rs", " out.rs", "out.rs "]).to_string();
    let input = match rng.below(100) {
        0..=54 => {
            let mut cfg = GenCfg::draw(rng, false);
            cfg.max_elems = *rng.pick(&[3, 8, 20, 60]);
            let (_s, mut docs) = super::gen_history(rng, &cfg, 1);
            if rng.pct(8) {
                // a large file (many read calls, size hint far off when statx fails): padding inside a comment
                let n = *rng.pick(&[9_000usize, 70_000, 300_000, 1_100_000]);
                docs[0].epilog.push(crate::dom::Misc::Comment("pad ".repeat(n / 4)));
            }
            InState::Present(docs[0].ser())
        }
        55..=69 => InState::Present(hostile(rng).0),
        70..=77 => {
            let mut b = base_document(rng);
            if rng.pct(20) {
                // a large file that is not UTF-8, the bad byte most likely inside the padding comment: whoever reads big
                // inputs another way (streaming above 64 KiB / 1 MiB) must still refuse it like a small one
                let n = *rng.pick(&[70_000usize, 300_000, 1_100_000]);
                b.extend_from_slice(b"<!--");
                b.extend_from_slice("pad ".repeat(n / 4).as_bytes());
                b.extend_from_slice(b"-->");
            }
            let bad: &[u8] = *rng.pick(&[&b"\xFF"[..], &b"\xC3"[..], &b"\xE2\x82"[..]]);
            let at = rng.below(b.len() + 1);
            b.splice(at..at, bad.iter().copied());
            InState::Present(b)
        }
        78..=83 => InState::Present(rng.pick(&[&b""[..], &b" \n"[..], &b"<?xml version=\"1.0\"?>"[..], &b"<!-- only a comment -->"[..], &b"plain text"[..]]).to_vec()),
        84..=85 => {
            // the same document through a named pipe (read-once input, like `/dev/stdin` fed by another program)
            let mut cfg = GenCfg::draw(rng, false);
            cfg.max_elems = 12;
            let (_s, docs) = super::gen_history(rng, &cfg, 1);
            InState::Fifo(docs[0].ser())
        }
        86..=91 => InState::Missing,
        92..=95 => InState::Directory,
        _ => InState::Present(base_document(rng)),
    };
    let output = match rng.below(100) {
        0..=39 => OutState::Stdout,
        40..=64 => OutState::New,
        81..=84 => OutState::Existing(Vec::new()),
        65..=80 => {
            // an existing, longer file: must be truncated on success, untouched on input failure
            let n = rng.range(1, 3000);
            OutState::Existing((0..n).map(|i| b"// old content\n"[i % 15]).collect())
        }
        85..=89 => {
            output_name = format!("no-such-dir/{output_name}");
            OutState::InMissingDir
        }
        90..=93 => OutState::ExistingLikeExpected(rng.pick(&["\n", "", "\n\n", " ", "\t\n"]).to_string()),
        94..=95 => OutState::DevNull,
        96 => OutState::DanglingSymlink,
        98 => OutState::ExistingReadOnly(b"// write-protected older content, longer than nothing\n".to_vec()),
        97 => OutState::ExistingOtherSort,
        _ => OutState::IsDirectory,
    };
    // convert in place / through a link to the input: only meaningful (and only free of blocking opens) for a regular input file
    let output = if matches!(input, InState::Present(_)) && rng.pct(3) {
        output_name = "link to input.rs".to_string();
        if rng.pct(50) {
            OutState::SameAsInput
        } else {
            OutState::SymlinkToInput
        }
    } else {
        output
    };
    let serde_xml_rs = rng.pct(40);
    let by_name = rng.pct(40);
    let mut opts: Vec<Vec<String>> = Vec::new();
    let pv = if serde_xml_rs { "serde-xml-rs" } else { "quick-xml-de" };
    if serde_xml_rs || rng.pct(50) {
        opts.push(match rng.below(4) {
            0 => vec!["--parser".into(), pv.into()],
            1 => vec![format!("--parser={pv}")],
            2 => vec!["-p".into(), pv.into()],
            _ => vec![format!("-p{pv}")],
        });
    }
    let sv = if by_name { "name" } else { "unsorted" };
    if by_name || rng.pct(50) {
        opts.push(match rng.below(4) {
            0 => vec!["--sort".into(), sv.into()],
            1 => vec![format!("--sort={sv}")],
            2 => vec!["-s".into(), sv.into()],
            _ => vec![format!("-s{sv}")],
        });
    }
    let derive = if rng.pct(60) {
        let d = rng.pick(&["Debug", "", "Serialize, Deserialize", "Debug, Clone", "Привет", "A B", "x=y", "Debug,Default", " ", "Deserialize", "serde::Serialize, serde::Deserialize", "Clone, serde::Deserialize", "::std::fmt::Debug, PartialEq", "some::very::long::qualified::path::to::a::derive::macro::that::goes::on::and::on::and::on::for::more::than::a::hundred::columns::Trait", "A, B, C, D, E, F, G, H, I, J, K, L, M, N, O, P, Q, R, S, T, U, V, W, X, Y, Z, A1, B1, C1, D1, E1, F1, G1, H1, I1, J1, K1, L1", "#[derive(Debug, Clone)]", "#[derive)(", ")(", "Debug,\r\nClone", "Debug,\nClone", "Debug\r", "\tDebug", "PartialOrd", "Debug, PartialEq, Eq, PartialOrd, Ord", "std::cmp::Ord", "Hash", "Default", "Copy, Clone"]).to_string();
        opts.push(match rng.below(4) {
            0 => vec!["--derive".into(), d.clone()],
            1 => vec![format!("--derive={d}")],
            2 => vec![format!("-d={d}")],
            _ => vec!["-d".into(), d.clone()],
        });
        Some(d)
    } else {
        None
    };
    rng.shuffle(&mut opts);
    let mut opt_args: Vec<String> = opts.into_iter().flatten().collect();
    if rng.pct(10) {
        opt_args.push("--".into());
    }
    let mut plan = Vec::new();
    if faults {
        let n = *rng.pick(&[1usize, 1, 1, 2, 2, 3]);
        for _ in 0..n {
            let e = match rng.below(10) {
                0 | 1 => format!("open:{}:{}", rng.below(3), rng.pick(&[4, 4, 5, 13, 24, 2, 28, 30])),
                2 | 3 => format!("read:{}:{}", rng.below(4), rng.pick(&[4, 4, 5, 11, 9])),
                4 | 5 => format!("read:{}:short={}", rng.below(4), rng.range(1, 7)),
                6 => format!("write:{}:{}", rng.below(3), rng.pick(&[4, 4, 28, 5, 32, 11])),
                7 | 8 => format!("write:{}:short={}", rng.below(3), rng.range(1, 40)),
                _ => format!("statx:*:{}", rng.pick(&[5, 38, 13])),
            };
            plan.push(e);
        }
    }
    CliCase { input_name, input, output_name, output, opt_args, serde_xml_rs, by_name, derive, plan, entropy: rng.u128(), twin_entropy: None, sweep: false }
}

/// Ok(Some(text)) = the library accepts the input and this is header + rendering; Ok(None) = the input is at
/// fault (missing, directory, not UTF-8, rejected by the parser); Err = entropy-sensitive rendering (C05's business)
pub fn expected_text(case: &CliCase) -> Result<Option<String>, String> {
    let bytes = match &case.input {
        InState::Present(b) | InState::Fifo(b) => b,
        _ => return Ok(None),
    };
    let Ok(text) = String::from_utf8(bytes.clone()) else { return Ok(None) };
    let opt = RenderOpt::preset(case.serde_xml_rs, case.by_name, case.derive.as_deref().unwrap_or("Serialize, Deserialize"));
    let mut outs: Vec<Option<String>> = Vec::new();
    for i in 0..3u128 {
        let t = text.clone();
        let o = opt.clone();
        let e = case.entropy.wrapping_mul(2 * i + 3) ^ (i << 64);
        let (r, _) = crate::entropy::with_entropy(e, move || {
            let mut reader = Reader::from_str(&t);
            match into_struct(&mut reader) {
                Ok(root) => Some(format!("{HEADER}{}", root.to_serde_struct(&o.options()))),
                Err(_) => None,
            }
        })?;
        outs.push(r);
    }
    if outs.iter().any(|o| *o != outs[0]) {
        return Err("entropy_sensitive_rendering".into());
    }
    Ok(outs.remove(0))
}

fn hard(v: &[i32]) -> bool {
    v.iter().any(|e| *e != EINTR)
}

pub fn judge(case: &CliCase, expected: &Option<String>, out: &CliOut, ctr: &mut Ctr) -> Option<Violation> {
    let f = &out.fired;
    let v = |class: &str, detail: String| {
        Some(Violation { class: class.to_string(), detail: format!("{detail}\nexit={:?} stdout={:?} stderr={:?}\nshim report:\n{}", out.exit, String::from_utf8_lossy(&out.stdout), String::from_utf8_lossy(&out.stderr), out.report) })
    };
    if out.timed_out {
        return v("hang", "the process did not exit within the watchdog".into());
    }
    if out.signal {
        return v("killed_by_signal", "the process was killed by a signal".into());
    }
    // the statement is silent about stdout / stderr themselves failing: recorded, never judged
    if hard(&f.stdout_write_err) || hard(&f.stderr_write_err) {
        bump(ctr, "probe.std_stream_write_failed");
        add(ctr, &format!("probe.std_stream_write_failed.exit_{}", out.exit.unwrap_or(-1)), 1);
        if hard(&f.stdout_write_err) && out.exit == Some(0) && matches!(case.output, OutState::Stdout) {
            let mut w = expected.clone().unwrap_or_default().into_bytes();
            w.push(b'\n');
            if expected.is_none() || out.stdout != w {
                return v("exit_0_without_output:stdout_error_swallowed", "a write to stdout failed, stdout does not hold the rendering, and the exit status is 0".into());
            }
        }
        return None;
    }
    let input_fault = expected.is_none() || hard(&f.input_open_err) || hard(&f.read_err);
    let output_uncreatable = matches!(case.output, OutState::InMissingDir | OutState::IsDirectory) || hard(&f.output_open_err);
    let to_stdout = matches!(case.output, OutState::Stdout);
    let transparent = f.read_short + f.out_write_short + f.std_write_short + f.statx_err > 0
        || f.input_open_err.contains(&EINTR)
        || f.output_open_err.contains(&EINTR)
        || f.read_err.contains(&EINTR)
        || f.out_write_err.contains(&EINTR)
        || f.stdout_write_err.contains(&EINTR)
        || f.stderr_write_err.contains(&EINTR);
    let sfx = if transparent { ":under_transparent_faults" } else { "" };
    if input_fault || output_uncreatable {
        bump(ctr, if input_fault { "path.failure_input_at_fault" } else { "path.failure_output_uncreatable" });
        if out.exit != Some(1) {
            return v(&format!("failure_exit_status{sfx}"), format!("expected exit status 1 ({})", if input_fault { "input at fault" } else { "output cannot be created" }));
        }
        if !out.stdout.is_empty() {
            return v(&format!("failure_stdout_not_empty{sfx}"), "stdout must stay empty on failure".into());
        }
        if out.stderr.is_empty() && f.stderr_write_err.is_empty() {
            return v(&format!("failure_no_diagnostic{sfx}"), "no diagnostic on stderr".into());
        }
        if input_fault && !to_stdout {
            let (a, b) = (&out.before, &out.after);
            // /dev/null is shared with every other process on the machine: its timestamps prove nothing
            if !matches!(case.output, OutState::DevNull) && (a.exists != b.exists || a.is_dir != b.is_dir || a.bytes != b.bytes || a.ino != b.ino || a.mtime_ns != b.mtime_ns) {
                return v(
                    &format!("output_touched_on_input_fault{sfx}"),
                    format!("the input was at fault but the output path changed: before exists={} len={} ino={} / after exists={} len={} ino={}", a.exists, a.bytes.len(), a.ino, b.exists, b.bytes.len(), b.ino),
                );
            }
            // (when the output *is* the input, opening it for reading is not an offence)
            if f.opens_of_output > 0 && !matches!(case.output, OutState::SameAsInput | OutState::SymlinkToInput) {
                return v(&format!("output_opened_on_input_fault{sfx}"), "the output path was opened although the input was at fault".into());
            }
        }
        return None;
    }
    // a write to the created output file failed hard: how the program fails is not specified (recorded as a
    // probe), but it must not claim success: exit status 0 means the output was emitted exactly
    if hard(&f.out_write_err) {
        bump(ctr, "probe.write_to_output_failed_after_create");
        add(ctr, &format!("probe.write_failed.exit_{}", out.exit.unwrap_or(-1)), 1);
        if out.exit == Some(0) && out.after.bytes != expected.as_ref().unwrap().as_bytes() {
            return v("exit_0_without_output:write_error_swallowed", "a write to the output file failed, the file does not hold the rendering, and the exit status is 0".into());
        }
        return None;
    }
    bump(ctr, "path.success");
    let want = expected.as_ref().unwrap();
    if out.exit != Some(0) {
        return v(&format!("success_exit_status{sfx}"), "expected exit status 0".into());
    }
    if to_stdout {
        let mut w = want.clone().into_bytes();
        w.push(b'\n');
        if out.stdout != w {
            return v(&format!("stdout_content{sfx}"), format!("stdout is not header + rendering + newline; expected:\n{want}"));
        }
    } else {
        if !out.stdout.is_empty() {
            return v(&format!("stdout_not_empty_with_output_file{sfx}"), "stdout must stay empty when an output file is named".into());
        }
        if matches!(case.output, OutState::DevNull) {
            // nothing is stored in a character device; exit status and the silence of stdout are what can be judged
            return None;
        }
        if !out.after.exists || out.after.bytes != want.as_bytes() {
            return v(&format!("output_file_content{sfx}"), format!("output file is not exactly header + rendering ({} bytes found, {} expected); expected:\n{want}", out.after.bytes.len(), want.len()));
        }
    }
    None
}

/// bounded sweep: the same world once per single fault; the first violating plan is reported
fn exec_sweep(case: &CliCase, ctr: &mut Ctr) -> Result<Exec, String> {
    let plans = crate::cli::single_fault_plans();
    let mut total: Option<Exec> = None;
    bump(ctr, "sweep.single_fault_cases");
    for p in plans {
        let mut c = case.clone();
        c.sweep = false;
        c.twin_entropy = None;
        c.plan = vec![p.clone()];
        let mut e = exec_case(&c, ctr)?;
        add(ctr, "sweep.single_fault_runs", 1);
        if let Some(v) = e.violation.as_mut() {
            v.detail = format!("single-fault sweep, failing plan {p}: {}", v.detail);
            return Ok(e);
        }
        total = Some(match total {
            None => e,
            Some(mut t) => {
                t.trace = crate::rng::mix(&[t.trace, e.trace]);
                t.sim_steps += e.sim_steps;
                t.nontrivial |= e.nontrivial;
                t
            }
        });
    }
    let mut t = total.ok_or("empty sweep")?;
    let mut fp = Fnv::new();
    fp.str(&case.to_j().to_string());
    t.fingerprint = fp.0;
    Ok(t)
}

pub fn exec_case(case: &CliCase, ctr: &mut Ctr) -> Result<Exec, String> {
    if case.sweep {
        return exec_sweep(case, ctr);
    }
    if case.input_name == case.output_name {
        return Ok(super::skip("same_input_and_output_path"));
    }
    let expected = match expected_text(case) {
        Ok(e) => e,
        Err(_) => return Ok(super::skip("entropy_sensitive_rendering")),
    };
    let sb = sandbox_dir();
    // "the other sort option's output is already there": resolve into a concrete existing file
    let resolved;
    let case = if matches!(case.output, OutState::ExistingOtherSort) {
        let mut other = case.clone();
        other.by_name = !case.by_name;
        let mut c2 = case.clone();
        c2.output = match expected_text(&other) {
            Ok(Some(t)) => OutState::Existing(t.into_bytes()),
            _ => OutState::Existing(b"// older, unrelated content\n".to_vec()),
        };
        resolved = c2;
        &resolved
    } else {
        case
    };
    let out = crate::cli::run_cli_with(case, case.entropy, &sb, expected.as_deref())?;
    let f = &out.fired;
    if out.stderr_was_terminal {
        bump(ctr, "fault.stderr_is_a_terminal");
    }
    if out.report.is_empty() {
        // the program as it stands always reads its input, so its report is never empty; an empty one means that
        // LD_PRELOAD did not take (harness error) - unless the canary shows that the shim is fine and this run simply
        // did nothing at all, which is then for the oracle below to judge
        if !crate::cli::shim_canary(&sb) {
            return Err("shim not live: the child produced an empty shim report".into());
        }
        bump(ctr, "reach.run_without_any_intercepted_call");
    }
    for (k, n) in [
        ("fault.open_errno_input", f.input_open_err.len() as u64),
        ("fault.open_errno_output", f.output_open_err.len() as u64),
        ("fault.read_errno", f.read_err.len() as u64),
        ("fault.short_read", f.read_short),
        ("fault.write_errno_output", f.out_write_err.len() as u64),
        ("fault.short_write_output", f.out_write_short),
        ("fault.write_errno_stdout", f.stdout_write_err.len() as u64),
        ("fault.write_errno_stderr", f.stderr_write_err.len() as u64),
        ("fault.short_write_std_stream", f.std_write_short),
        ("fault.statx_errno", f.statx_err),
        ("fault.getrandom_seeded", f.getrandom_seeded),
    ] {
        add(ctr, k, n);
    }
    let eintr = [&f.input_open_err, &f.output_open_err, &f.read_err, &f.out_write_err, &f.stdout_write_err, &f.stderr_write_err].iter().map(|v| v.iter().filter(|e| **e == EINTR).count() as u64).sum::<u64>();
    add(ctr, "fault.eintr", eintr);
    let mut violation = judge(case, &expected, &out, ctr);
    if violation.is_none() {
        if let Some(te) = case.twin_entropy {
            // process twin: same world, other hash entropy
            let out2 = crate::cli::run_cli_with(case, te, &sb, expected.as_deref())?;
            bump(ctr, "fault.process_entropy_twin");
            if let Some(v) = judge(case, &expected, &out2, ctr) {
                // the twin's world differs in hash entropy and environment variables only: it is judged like any run
                violation = Some(Violation { class: format!("{}:process_twin", v.class), detail: v.detail });
            } else if out2.exit != out.exit || out2.stdout != out.stdout || out2.after.bytes != out.after.bytes {
                violation = Some(Violation {
                    class: "process_twin_differs".into(),
                    detail: format!("two processes with different hash entropy produced different results:\n{}\n---\n{}", String::from_utf8_lossy(&out.stdout), String::from_utf8_lossy(&out2.stdout)),
                });
            }
        }
    }
    // environment variables the program was seen to read are inputs: set them and demand the same outcome.
    // (clap asks for its colour switches on every run; those are exercised on a tenth of the cases.)
    if violation.is_none() && case.plan.is_empty() {
        const CLAP: &[&str] = &["CLICOLOR", "CLICOLOR_FORCE", "NO_COLOR", "TERM", "COLUMNS", "LINES"];
        let unusual: Vec<&String> = f.getenv.iter().filter(|n| !CLAP.contains(&n.as_str())).collect();
        for n in &unusual {
            bump(ctr, &format!("reach.cli_read_environment_variable.{n}"));
        }
        let mut fpx = Fnv::new();
        fpx.str(&case.to_j().to_string());
        if !f.getenv.is_empty() && (!unusual.is_empty() || fpx.0 % 10 == 0) {
            for val in ["1", "/", "", "off", "xml_schema_generator=debug,other=off", "--sort name --parser serde-xml-rs"] {
                let env: Vec<(String, String)> = f.getenv.iter().map(|n| (n.clone(), val.to_string())).collect();
                let o2 = crate::cli::run_cli_env(case, case.entropy, &sb, expected.as_deref(), &env)?;
                bump(ctr, "fault.rerun_with_read_environment_variables_set");
                if let Some(v) = judge(case, &expected, &o2, ctr) {
                    violation = Some(Violation { class: format!("{}:with_environment_variable", v.class), detail: format!("with {:?} set to {val:?}: {}", f.getenv, v.detail) });
                    break;
                }
                if o2.exit != out.exit || o2.stdout != out.stdout || o2.after.bytes != out.after.bytes {
                    violation = Some(Violation {
                        class: "outcome_depends_on_environment_variable".into(),
                        detail: format!(
                            "with {:?} set to {val:?} the same world gives exit {:?} (was {:?}); stdout/file {} bytes (was {})\nstderr: {}",
                            f.getenv,
                            o2.exit,
                            out.exit,
                            o2.stdout.len() + o2.after.bytes.len(),
                            out.stdout.len() + out.after.bytes.len(),
                            String::from_utf8_lossy(&o2.stderr)
                        ),
                    });
                    break;
                }
            }
        }
    }
    let fired_any = f.input_open_err.len() + f.output_open_err.len() + f.read_err.len() + f.out_write_err.len() + f.stdout_write_err.len() + f.stderr_write_err.len() > 0
        || f.read_short + f.out_write_short + f.std_write_short + f.statx_err > 0;
    let failure_path = out.exit != Some(0);
    let mut fp = Fnv::new();
    fp.str(&case.to_j().to_string());
    let mut tr = Fnv::new();
    tr.u64(out.exit.unwrap_or(-1) as u64);
    tr.bytes(&out.stdout);
    // stderr may carry the process id (panic messages name the thread by id): digits are not part of the trace
    tr.bytes(&out.stderr.iter().copied().filter(|b| !b.is_ascii_digit()).collect::<Vec<u8>>());
    tr.bytes(&out.after.bytes);
    // the shim report carries the byte lengths of stderr writes, which vary with the pid's digit count:
    // hash what fired, not the raw report
    tr.str(&format!("{:?}", (&f.input_open_err, &f.output_open_err, &f.read_err, f.read_short, &f.out_write_err, f.out_write_short, &f.stdout_write_err, &f.stderr_write_err, f.statx_err, f.getrandom_seeded, f.opens_of_output)));
    let mut env = Fnv::new();
    env.str(&case.plan.iter().map(|p| p.split(':').next().unwrap_or("").to_string() + p.rsplit(':').next().unwrap_or("")).collect::<Vec<_>>().join(","));
    env.u64(match case.output {
        OutState::Stdout => 0,
        OutState::New => 1,
        OutState::Existing(_) => 2,
        OutState::InMissingDir => 3,
        OutState::IsDirectory => 4,
        OutState::ExistingLikeExpected(_) => 5,
        OutState::DevNull => 6,
        OutState::DanglingSymlink => 7,
        OutState::ExistingOtherSort => 8,
        OutState::ExistingReadOnly(_) => 9,
        OutState::SameAsInput => 10,
        OutState::SymlinkToInput => 11,
    });
    env.u64(expected.is_some() as u64);
    Ok(Exec { violation, trace: tr.0, fingerprint: fp.0, nontrivial: fired_any || failure_path, sim_steps: f.calls, discarded: None, shape: 0, env_sig: env.0 })
}

impl Prop for C12 {
    fn id(&self) -> &'static str {
        "C12"
    }
    fn runs(&self, tier: &str) -> u64 {
        if tier == "thorough" {
            600_000
        } else {
            24_000
        }
    }
    fn gen(&self, seed: u64) -> Scenario {
        let mut rng = Rng::new(seed);
        if rng.pct(2) {
            // bounded sweep: one world, every single fault
            let mut c = gen_case(&mut rng, false);
            c.sweep = true;
            return Scenario::Cli(c);
        }
        let faults = rng.pct(60);
        let mut c = gen_case(&mut rng, faults);
        if !faults && rng.pct(30) {
            c.twin_entropy = Some(rng.u128());
        }
        Scenario::Cli(c)
    }
    fn exec(&self, sc: &Scenario, ctr: &mut Ctr) -> Result<Exec, String> {
        match sc {
            Scenario::Cli(c) => exec_case(c, ctr),
            _ => Ok(super::skip("not_a_cli_case")),
        }
    }
    fn rule(&self) -> &'static str {
        "a case = one execution of the release binary in a private sandbox: input present (generated valid document / hostile bytes / non-UTF-8 / empty or element-less) or missing or a directory; output to stdout / new file / existing longer or empty file / existing file that already holds the expected text give or take trailing white space / path in a missing directory / a directory / the character device /dev/null; argv drawn from every --parser, --sort, --derive combination in all spellings (--opt v, --opt=v, -o v, -ov) with derive strings incl. empty, spaces, commas, non-ASCII; 60% of cases carry a fault plan of 1-3 libc faults (EINTR / errno on open, read, write; short reads and writes down to 1 byte; statx failure), all cases carry the hash entropy; 2% of cases are bounded sweeps (one world x each of the 66 single faults: every errno / short count at each of the first 3 opens, 4 reads, 3 writes, plus statx failures); expected bytes computed in-process from the same library under 3 entropies; distinct = distinct (sandbox, argv, plan); non-trivial = an injected fault actually fired (per the shim's report) or the run took a failure path"
    }
    fn real_components(&self) -> Vec<&'static str> {
        vec!["the shipped xml_schema_generator release binary (main.rs, args.rs, clap, std::fs, std::io)", "the library linked into it", "the kernel file system under the sandbox directory"]
    }
    fn stub_components(&self) -> Vec<&'static str> {
        vec!["results of open/openat, read, write/writev, statx/fstat and getrandom as returned by the LD_PRELOAD shim when the plan says so"]
    }
    fn assumptions(&self) -> Vec<&'static str> {
        vec![
            "glibc dynamic linking so that LD_PRELOAD interposes (liveness asserted per run: the shim must have served the entropy request)",
            "when a write to the created output file or to stdout fails hard, only 'exit status 0 implies the output was emitted exactly' is judged; how the program fails then (status, stderr) is recorded as a probe, as are failures of stderr itself",
            "a C05-only regression cannot alarm here: inputs whose in-process rendering differs across 3 entropies are discarded and counted",
        ]
    }
}
