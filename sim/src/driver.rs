//! Batch driver: seeds → runs in crash-isolated worker processes → verdict, minimised replay file, evidence.

use std::collections::{BTreeMap, HashSet};
use std::io::{BufRead, BufReader, Write};
use std::process::{Command, Stdio};
use std::time::Instant;

use crate::json::{self, J};
use crate::props::{self, Ctr, Prop, Scenario};
use crate::rng::{hash_str, mix};

pub fn verif_dir() -> String {
    std::env::var("XSG_VERIF_DIR").unwrap_or_else(|_| "/verif".to_string())
}

fn env_seed() -> u64 {
    std::env::var("VERIF_SEED").ok().and_then(|s| s.trim().parse::<i64>().ok()).map(|v| v as u64).unwrap_or(1)
}

pub fn run_seed(seed: u64, id: &str, run: u64) -> u64 {
    mix(&[seed, hash_str(id), run])
}

fn esc(s: &str) -> String {
    s.replace('\\', "\\\\").replace('\n', "\\n").replace('\t', "\\t")
}

pub fn main(args: &[String]) -> i32 {
    let cmd = args.get(1).map(|s| s.as_str()).unwrap_or("");
    let r = match cmd {
        "check" => check(args),
        "worker" => worker(args),
        "shrink" => shrink_cmd(args),
        "replay" => replay_cmd(args),
        "prefix" => prefix_cmd(args),
        "show" => show(args),
        "canary" => crate::entropy::canary().map(|m| {
            println!("{m}");
            0
        }),
        "selfcheck" => selfcheck(args),
        _ => Err(format!(
            "usage: xsg-sim check <ID> [quick|thorough] | replay <file> | show <ID> <run> | selfcheck | canary (got {cmd:?})"
        )),
    };
    match r {
        Ok(c) => c,
        Err(e) => {
            eprintln!("HARNESS-ERROR: {e}");
            2
        }
    }
}

fn prop(id: &str) -> Result<Box<dyn Prop>, String> {
    props::by_id(id).ok_or_else(|| format!("no check for property {id}"))
}

fn show(args: &[String]) -> Result<i32, String> {
    let id = args.get(2).ok_or("show <ID> <run>")?;
    let run: u64 = args.get(3).ok_or("show <ID> <run>")?.parse().map_err(|_| "bad run")?;
    let p = prop(id)?;
    let sc = p.gen(run_seed(env_seed(), id, run));
    println!("{}", sc.to_j().pretty());
    let mut ctr = Ctr::new();
    let e = p.exec(&sc, &mut ctr)?;
    println!("violation: {:?}\nnontrivial: {} discarded: {:?}\ncounters: {:?}", e.violation, e.nontrivial, e.discarded, ctr);
    Ok(0)
}

// ---------------------------------------------------------------------------------------------
// worker
// ---------------------------------------------------------------------------------------------

/// What a long-lived process has typically done before the call that matters: some parsing and rendering under
/// whatever environment it was started in. One-time initialisation in the code under test (statics, OnceLock,
/// lazily built tables) is decided here; a quarter of the workers start with a populated environment, a quarter
/// with trace logging, a quarter with both. Without such state in the code under test this changes nothing.
pub fn process_prologue(offset: u64) {
    use quick_xml::reader::Reader;
    use xml_schema_generator::{extend_struct, into_struct, Options, SortBy};
    let env_on = offset % 4 == 1 || offset % 4 == 3;
    let log_on = offset % 4 >= 2;
    crate::set_logging(log_on);
    // name pressure: the process has already met N distinct element / attribute names, N just below a power of two
    // (bounded symbol tables, interners and caches in the code under test are then about to roll over)
    let pressure = [0usize, 250, 1020, 4090, 8185, 16380, 4094, 0][(offset / 4 % 8) as usize];
    let _ = crate::entropy::with_env(0x5eed_0000 + offset as u128, env_on, move || {
        let _ = std::panic::catch_unwind(|| {
            if pressure > 0 {
                // spread over many parents so that the per-parent sibling lists stay short
                let mut doc = String::from("<names>");
                let mut i = 0;
                while i < pressure {
                    doc.push_str(&format!("<q{}>", i / 100));
                    for j in i..(i + 100).min(pressure) {
                        doc.push_str(&format!("<z{j} w{j}=\"1\"/>"));
                    }
                    doc.push_str(&format!("</q{}>", i / 100));
                    i += 100;
                }
                doc.push_str("</names>");
                let mut r = Reader::from_str(&doc);
                if let Ok(t) = into_struct(&mut r) {
                    let _ = t.to_serde_struct(&Options::quick_xml_de());
                }
            }
            let mut r = Reader::from_str("<Zeta b=\"1\" A=\"2\" xml:lang=\"x\"><alpha>t</alpha><Beta/><alpha/></Zeta>");
            if let Ok(t) = into_struct(&mut r) {
                let mut r2 = Reader::from_str("<Zeta c=\"3\"><gamma><alpha/></gamma></Zeta>");
                if let Ok(t) = extend_struct(&mut r2, t) {
                    for sx in [false, true] {
                        for by_name in [true, false] {
                            let mut o = if sx { Options::serde_xml_rs() } else { Options::quick_xml_de() };
                            o.sort = if by_name { SortBy::XmlName } else { SortBy::Unsorted };
                            let _ = t.to_serde_struct(&o);
                        }
                    }
                }
            }
        });
    });
    crate::set_logging(false);
}

fn worker(args: &[String]) -> Result<i32, String> {
    // worker <ID> <seed> <offset> <stride> <total> <stopfile> <samples>
    let id = &args[2];
    let seed: u64 = args[3].parse().map_err(|_| "seed")?;
    let offset: u64 = args[4].parse().map_err(|_| "offset")?;
    let stride: u64 = args[5].parse().map_err(|_| "stride")?;
    let total: u64 = args[6].parse().map_err(|_| "total")?;
    let stopfile = args[7].clone();
    let want_samples: usize = args[8].parse().map_err(|_| "samples")?;
    let p = prop(id)?;
    crate::quiet_panics();
    process_prologue(offset);
    let out = std::io::stdout();
    let mut out = std::io::BufWriter::with_capacity(1 << 16, out.lock());
    let mut ctr = Ctr::new();
    let mut samples = 0usize;
    let mut run = offset;
    let mut n = 0u64;
    let mut stop_at: Option<u64> = None;
    // Safety net only (never a source of decisions): if one run is still executing after 120 s of wall clock,
    // report it as hung and leave; the parent turns that into a replayable C07-style finding for that run.
    let current = std::sync::Arc::new(std::sync::atomic::AtomicU64::new(u64::MAX));
    {
        let current = current.clone();
        std::thread::spawn(move || {
            let mut last = u64::MAX;
            let mut since = Instant::now();
            loop {
                std::thread::sleep(std::time::Duration::from_millis(500));
                let c = current.load(std::sync::atomic::Ordering::SeqCst);
                if c != last {
                    last = c;
                    since = Instant::now();
                } else if c != u64::MAX && since.elapsed().as_secs() >= 120 {
                    eprintln!("watchdog: run {c} still executing after 120 s");
                    std::process::exit(7);
                }
            }
        });
    }
    while run < total {
        if n % 64 == 0 && stopfile != "-" {
            if let Ok(s) = std::fs::read_to_string(&stopfile) {
                stop_at = s.lines().filter_map(|l| l.trim().parse::<u64>().ok()).min();
            }
        }
        if let Some(s) = stop_at {
            if run > s {
                break;
            }
        }
        // B is flushed before the run starts so that a crash is attributable
        writeln!(out, "B {run}").ok();
        out.flush().ok();
        current.store(run, std::sync::atomic::Ordering::SeqCst);
        let t_run = Instant::now();
        let sc = p.gen(run_seed(seed, id, run));
        let e = p.exec(&sc, &mut ctr)?;
        if std::env::var("XSG_SLOW").is_ok() && t_run.elapsed().as_millis() > 150 {
            eprintln!("slow run {run}: {} ms, scenario {} bytes", t_run.elapsed().as_millis(), sc.to_j().to_string().len());
        }
        if let Some(d) = &e.discarded {
            writeln!(out, "X {run} {}", esc(d)).ok();
        }
        writeln!(out, "E {run} {:x} {:x} {} {:x} {:x} {}", e.trace, e.fingerprint, e.nontrivial as u8, e.shape, e.env_sig, e.sim_steps).ok();
        if let Some(v) = &e.violation {
            writeln!(out, "V {run} {}", esc(&v.class)).ok();
            out.flush().ok();
            if stopfile != "-" {
                if let Ok(mut f) = std::fs::OpenOptions::new().create(true).append(true).open(&stopfile) {
                    let _ = writeln!(f, "{run}");
                }
            }
        }
        if samples < want_samples && e.nontrivial && e.violation.is_none() {
            samples += 1;
            writeln!(out, "S {}", sc.sample_j().to_string()).ok();
        }
        run += stride;
        n += 1;
    }
    current.store(u64::MAX, std::sync::atomic::Ordering::SeqCst);
    for (k, v) in &ctr {
        writeln!(out, "C {k}\t{v}").ok();
    }
    writeln!(out, "F").ok();
    out.flush().ok();
    Ok(0)
}

#[derive(Default)]
struct WorkerResult {
    ends: Vec<(u64, u64)>, // (run, trace) — only kept for run < keep_traces
    evaluations: u64,
    fps_nontrivial: Vec<u64>,
    fps_all: u64,
    shapes: Vec<u64>,
    envs: Vec<u64>,
    sim_steps: u64,
    violations: Vec<(u64, String)>,
    discarded: BTreeMap<String, u64>,
    ctr: Ctr,
    samples: Vec<String>,
    finished: bool,
    last_begun: Option<u64>,
    last_ended: Option<u64>,
    exit_ok: bool,
    stderr: String,
}

struct Batch {
    results: Vec<WorkerResult>,
    wall: f64,
}

fn run_batch(id: &str, seed: u64, total: u64, workers: u64, stopfile: &str, keep_traces: u64, samples: usize) -> Result<Batch, String> {
    let exe = std::env::current_exe().map_err(|e| e.to_string())?;
    let t0 = Instant::now();
    let mut handles = Vec::new();
    for w in 0..workers {
        let mut child = Command::new(&exe)
            .args(["worker", id, &seed.to_string(), &w.to_string(), &workers.to_string(), &total.to_string(), stopfile, &samples.to_string()])
            .stdin(Stdio::null())
            .stdout(Stdio::piped())
            .stderr(Stdio::piped())
            .spawn()
            .map_err(|e| format!("spawn worker: {e}"))?;
        let stdout = child.stdout.take().unwrap();
        let mut stderr = child.stderr.take().unwrap();
        let h = std::thread::spawn(move || {
            let eh = std::thread::spawn(move || {
                let mut s = String::new();
                let _ = std::io::Read::read_to_string(&mut stderr, &mut s);
                s
            });
            let mut r = WorkerResult::default();
            let rd = BufReader::with_capacity(1 << 16, stdout);
            for line in rd.lines() {
                let Ok(line) = line else { break };
                let mut it = line.splitn(2, ' ');
                let tag = it.next().unwrap_or("");
                let rest = it.next().unwrap_or("");
                match tag {
                    "B" => r.last_begun = rest.parse().ok(),
                    "E" => {
                        let f: Vec<&str> = rest.split(' ').collect();
                        if f.len() >= 7 {
                            let run: u64 = f[0].parse().unwrap_or(0);
                            let trace = u64::from_str_radix(f[1], 16).unwrap_or(0);
                            let fp = u64::from_str_radix(f[2], 16).unwrap_or(0);
                            let nt = f[3] == "1";
                            let shape = u64::from_str_radix(f[4], 16).unwrap_or(0);
                            let env = u64::from_str_radix(f[5], 16).unwrap_or(0);
                            r.sim_steps += f[6].parse::<u64>().unwrap_or(0);
                            r.evaluations += 1;
                            r.fps_all += 1;
                            if nt {
                                r.fps_nontrivial.push(fp);
                            }
                            if shape != 0 {
                                r.shapes.push(shape);
                            }
                            if env != 0 {
                                r.envs.push(env);
                            }
                            if run < keep_traces {
                                r.ends.push((run, trace));
                            }
                            r.last_ended = Some(run);
                        }
                    }
                    "V" => {
                        let mut f = rest.splitn(2, ' ');
                        let run: u64 = f.next().unwrap_or("0").parse().unwrap_or(0);
                        r.violations.push((run, f.next().unwrap_or("").to_string()));
                    }
                    "X" => {
                        let mut f = rest.splitn(2, ' ');
                        let _ = f.next();
                        *r.discarded.entry(f.next().unwrap_or("").to_string()).or_insert(0) += 1;
                    }
                    "C" => {
                        if let Some((k, v)) = rest.split_once('\t') {
                            *r.ctr.entry(k.to_string()).or_insert(0) += v.parse::<u64>().unwrap_or(0);
                        }
                    }
                    "S" => r.samples.push(rest.to_string()),
                    "F" => r.finished = true,
                    _ => {}
                }
            }
            r.exit_ok = child.wait().map(|s| s.success()).unwrap_or(false);
            r.stderr = eh.join().unwrap_or_default();
            r
        });
        handles.push(h);
    }
    let mut results = Vec::new();
    for h in handles {
        results.push(h.join().map_err(|_| "collector thread panicked")?);
    }
    Ok(Batch { results, wall: t0.elapsed().as_secs_f64() })
}

// ---------------------------------------------------------------------------------------------
// known findings
// ---------------------------------------------------------------------------------------------

struct Known {
    class: String,
    witness: String,
    text: String,
}

fn known_findings(id: &str) -> Vec<Known> {
    let path = format!("{}/KNOWN_FINDINGS.txt", verif_dir());
    let mut v = Vec::new();
    if let Ok(s) = std::fs::read_to_string(path) {
        for l in s.lines() {
            let l = l.trim();
            // known: property=<id> class=<class> witness=<hash> <what fails>
            if let Some(rest) = l.strip_prefix("known:") {
                let mut prop = "";
                let mut class = "";
                let mut witness = "";
                for tok in rest.split_whitespace() {
                    if let Some(x) = tok.strip_prefix("property=") {
                        prop = x;
                    } else if let Some(x) = tok.strip_prefix("class=") {
                        class = x;
                    } else if let Some(x) = tok.strip_prefix("witness=") {
                        witness = x;
                    }
                }
                if prop == id {
                    v.push(Known { class: class.to_string(), witness: witness.to_string(), text: rest.trim().to_string() });
                }
            }
        }
    }
    v
}

// ---------------------------------------------------------------------------------------------
// check
// ---------------------------------------------------------------------------------------------

fn check(args: &[String]) -> Result<i32, String> {
    let id = args.get(2).ok_or("check <ID> [quick|thorough]")?.clone();
    let mut tier = std::env::var("VERIF_TIER").unwrap_or_else(|_| "quick".into());
    let mut runs_override: Option<u64> = None;
    let mut workers: u64 = std::thread::available_parallelism().map(|n| n.get() as u64).unwrap_or(4).min(16);
    let mut i = 3;
    while i < args.len() {
        match args[i].as_str() {
            "quick" | "thorough" => tier = args[i].clone(),
            "--tier" => {
                i += 1;
                tier = args.get(i).cloned().unwrap_or(tier);
            }
            "--runs" => {
                i += 1;
                runs_override = args.get(i).and_then(|s| s.parse().ok());
            }
            "--workers" => {
                i += 1;
                workers = args.get(i).and_then(|s| s.parse().ok()).unwrap_or(workers);
            }
            other => return Err(format!("unknown argument {other}")),
        }
        i += 1;
    }
    if tier != "quick" && tier != "thorough" {
        tier = "quick".into();
    }
    let seed = env_seed();
    let p = prop(&id)?;
    let total = runs_override.unwrap_or_else(|| p.runs(&tier));
    let vd = verif_dir();
    let work = format!("{vd}/work/{id}");
    std::fs::create_dir_all(&work).map_err(|e| format!("{work}: {e}"))?;
    std::fs::create_dir_all(format!("{vd}/evidence")).ok();
    std::fs::create_dir_all(format!("{vd}/replays")).ok();
    println!("check {id} tier={tier} VERIF_SEED={seed} runs={total} workers={workers}");
    let canary = crate::entropy::canary()?;
    println!("entropy seam canary: {canary}");

    let known = known_findings(&id);
    let stopfile = format!("{work}/stop.{}", std::process::id());
    let _ = std::fs::remove_file(&stopfile);
    let recheck_n = total.min(2000);
    let batch = run_batch(&id, seed, total, workers, if known.is_empty() { &stopfile } else { "-" }, recheck_n, 2)?;
    let _ = std::fs::remove_file(&stopfile);

    // merge
    let mut ctr = Ctr::new();
    let mut discarded: BTreeMap<String, u64> = BTreeMap::new();
    let mut nontrivial: HashSet<u64> = HashSet::new();
    let mut shapes: HashSet<u64> = HashSet::new();
    let mut envs: HashSet<u64> = HashSet::new();
    let mut evaluations = 0u64;
    let mut sim_steps = 0u64;
    let mut violations: Vec<(u64, String)> = Vec::new();
    let mut samples: Vec<J> = Vec::new();
    let mut traces: BTreeMap<u64, u64> = BTreeMap::new();
    let mut crashed: Vec<(u64, String)> = Vec::new();
    for r in &batch.results {
        for (k, v) in &r.ctr {
            *ctr.entry(k.clone()).or_insert(0) += v;
        }
        for (k, v) in &r.discarded {
            *discarded.entry(k.clone()).or_insert(0) += v;
        }
        nontrivial.extend(r.fps_nontrivial.iter().copied());
        shapes.extend(r.shapes.iter().copied());
        envs.extend(r.envs.iter().copied());
        evaluations += r.evaluations;
        sim_steps += r.sim_steps;
        violations.extend(r.violations.iter().cloned());
        for s in &r.samples {
            if samples.len() < 4 {
                if let Ok(j) = json::parse(s) {
                    samples.push(j);
                }
            }
        }
        for (run, t) in &r.ends {
            traces.insert(*run, *t);
        }
        if !r.finished || !r.exit_ok {
            let run = match (r.last_begun, r.last_ended) {
                (Some(b), Some(e)) if b != e => Some(b),
                (Some(b), None) => Some(b),
                _ => None,
            };
            match run {
                Some(run) => crashed.push((run, r.stderr.lines().last().unwrap_or("").to_string())),
                None => return Err(format!("a worker failed outside of a run: {}", r.stderr.trim())),
            }
        }
    }
    violations.sort();
    crashed.sort();

    // determinism re-check of the first runs in a different worker layout (separate processes)
    let mut recheck_mismatch = 0u64;
    let mut rechecked = 0u64;
    if violations.is_empty() && crashed.is_empty() && recheck_n > 0 {
        let b2 = run_batch(&id, seed, recheck_n, if workers > 5 { 5 } else { workers + 1 }, "-", recheck_n, 0)?;
        for r in &b2.results {
            if !r.finished || !r.exit_ok {
                return Err(format!("determinism re-check worker failed: {}", r.stderr.trim()));
            }
            for (run, t) in &r.ends {
                rechecked += 1;
                if traces.get(run) != Some(t) {
                    recheck_mismatch += 1;
                    eprintln!("trace mismatch at run {run}: {:x?} vs {t:x}", traces.get(run));
                }
            }
        }
        if recheck_mismatch > 0 {
            return Err(format!("nondeterministic trace: {recheck_mismatch} of {rechecked} re-executed runs differ"));
        }
    }

    // violations → minimise, replay in a fresh process, report
    let mut reported: Option<(String, String)> = None; // (class, replay path)
    let mut known_lines: Vec<String> = Vec::new();
    let exe = std::env::current_exe().map_err(|e| e.to_string())?;
    if !crashed.is_empty() {
        let (run, why) = &crashed[0];
        if why.contains("HARNESS-ERROR") {
            // the worker stopped because the harness itself could not do its job: never a verdict on the code under test
            return Err(format!("worker stopped at run {run}: {why}"));
        }
        // a worker died inside a run: abort / stack overflow / OOM. Replay file = the unshrunk scenario.
        let sc = p.gen(run_seed(seed, &id, *run));
        let path = format!("{vd}/replays/{id}-crash-{seed}-{run}.json");
        let j = J::obj()
            .set("property", J::s(&id))
            .set("seed", J::Int(seed as i64))
            .set("run", J::Int(*run as i64))
            .set("class", J::s("worker_process_died"))
            .set("detail", J::s(format!("worker process died while executing this run: {why}")))
            .set("scenario", sc.to_j());
        std::fs::write(&path, j.pretty()).map_err(|e| e.to_string())?;
        let st = Command::new(&exe).args(["replay", &path]).stdout(Stdio::null()).stderr(Stdio::null()).status().map_err(|e| e.to_string())?;
        if st.success() {
            return Err(format!("worker died at run {run} ({why}) but the replay of that run completes: harness defect"));
        }
        reported = Some(("worker_process_died".into(), path));
    }
    let mut unreproduced: Option<String> = None;
    if reported.is_none() {
        for (run, class) in violations.iter().take(12) {
            let path = format!("{vd}/replays/{id}-{seed}-{run}.json");
            let o = Command::new(&exe).args(["shrink", &id, &seed.to_string(), &run.to_string(), &path]).output().map_err(|e| e.to_string())?;
            if o.status.code() != Some(0) {
                // Not reproducible from its seed alone: the code under test may keep process-wide state (statics, caches,
                // one-time initialisation) so that a run depends on the runs the same worker process executed before.
                // Re-execute that worker's whole prefix in a fresh process; if the violation is back, that is the finding.
                let offset = run % workers;
                let o3 = Command::new(&exe)
                    .args(["prefix", &id, &seed.to_string(), &offset.to_string(), &workers.to_string(), &run.to_string(), &path])
                    .output()
                    .map_err(|e| e.to_string())?;
                if o3.status.code() == Some(0) {
                    let o4 = Command::new(&exe).args(["replay", &path]).output().map_err(|e| e.to_string())?;
                    if o4.status.code() == Some(1) {
                        reported = Some((format!("{class}:needs_process_history"), path));
                        break;
                    }
                }
                // no verdict from this one (real nondeterminism in the code under test - a thread, a race - or a harness
                // defect): try the other violations of the batch first; a harness error only if none of them reproduces
                unreproduced.get_or_insert(format!(
                    "violation at run {run} ({class}) did not reproduce, neither from its seed nor from its worker's run prefix, in a fresh process: {}{}",
                    String::from_utf8_lossy(&o.stdout),
                    String::from_utf8_lossy(&o.stderr)
                ));
                let _ = std::fs::remove_file(&path);
                continue;
            }
            let o2 = Command::new(&exe).args(["replay", &path]).output().map_err(|e| e.to_string())?;
            let so = String::from_utf8_lossy(&o2.stdout).to_string();
            let want = format!("REPLAYED class={class}");
            if o2.status.code() != Some(1) || !so.lines().any(|l| l.trim() == want) {
                // reproduced while shrinking but not in the replay process: depends on more than the scenario
                // (addresses, what the process did before). Fall back to the worker's run prefix.
                let offset = run % workers;
                let o3 = Command::new(&exe)
                    .args(["prefix", &id, &seed.to_string(), &offset.to_string(), &workers.to_string(), &run.to_string(), &path])
                    .output()
                    .map_err(|e| e.to_string())?;
                if o3.status.code() == Some(0) {
                    let o4 = Command::new(&exe).args(["replay", &path]).output().map_err(|e| e.to_string())?;
                    if o4.status.code() == Some(1) {
                        reported = Some((format!("{class}:needs_process_history"), path));
                        break;
                    }
                }
                unreproduced.get_or_insert(format!("replay of {path} did not reproduce class {class}: exit {:?}\n{so}", o2.status.code()));
                let _ = std::fs::remove_file(&path);
                continue;
            }
            let witness = std::fs::read_to_string(&path).ok().and_then(|s| json::parse(&s).ok()).and_then(|j| j.str_of("witness").ok()).unwrap_or_default();
            if let Some(k) = known.iter().find(|k| k.class == *class && k.witness == witness) {
                known_lines.push(format!("KNOWN-FINDING: {}", k.text));
                let _ = std::fs::remove_file(&path);
                continue;
            }
            reported = Some((class.clone(), path));
            break;
        }
    }

    if reported.is_none() {
        if let Some(m) = unreproduced {
            return Err(m);
        }
    }

    // evidence
    let wall = batch.wall;
    let mut cov = J::obj();
    cov.put("evaluations", J::Int(evaluations as i64));
    cov.put("distinct_nontrivial", J::Int(nontrivial.len() as i64));
    cov.put("rule", J::s(p.rule()));
    cov.put("samples", J::Arr(samples));
    cov.put("exhaustive", J::Bool(false));
    cov.put("runs_per_hour", J::Int(if wall > 0.0 { (evaluations as f64 / wall * 3600.0) as i64 } else { 0 }));
    cov.put("seeds", J::s(format!("run_seed = mix(VERIF_SEED={seed}, fnv(\"{id}\"), run) for run in 0..{total}")));
    cov.put("sim_steps", J::Int(sim_steps as i64));
    cov.put(
        "simulated_time",
        J::s(format!(
            "the code under test reads no clock and sets no timer; logical time = reader fill_buf calls + API calls, reported as sim_steps. Clock jumps are injected all the same: {} replicas had a slow byte source during which 11 s .. 31 days of simulated time passed or the wall clock was stepped back by 2 s .. 1 day",
            ctr.get("fault.replica_with_slow_source_simulated_time_jump").copied().unwrap_or(0)
        )),
    );
    cov.put("distinct_schema_shapes", J::Int(shapes.len() as i64));
    cov.put("distinct_env_signatures", J::Int(envs.len() as i64));
    let mut faults = J::obj();
    let mut reach = J::obj();
    let mut other = J::obj();
    for (k, v) in &ctr {
        if let Some(f) = k.strip_prefix("fault.") {
            faults.put(f, J::Int(*v as i64));
        } else if let Some(f) = k.strip_prefix("reach.") {
            reach.put(f, J::Int(*v as i64));
        } else {
            other.put(k.clone(), J::Int(*v as i64));
        }
    }
    cov.put("faults_fired", faults);
    cov.put("reach_probes", reach);
    cov.put("counters", other);
    let mut dj = J::obj();
    for (k, v) in &discarded {
        dj.put(k.clone(), J::Int(*v as i64));
    }
    cov.put("discarded", dj);
    cov.put("real_components", J::Arr(p.real_components().into_iter().map(J::s).collect()));
    cov.put("stub_components", J::Arr(p.stub_components().into_iter().map(J::s).collect()));
    cov.put("determinism_recheck", J::obj().set("runs", J::Int(rechecked as i64)).set("mismatches", J::Int(recheck_mismatch as i64)));
    cov.put("seam_canary", J::s(canary));
    cov.put("workers", J::Int(workers as i64));
    if !known_lines.is_empty() {
        cov.put("known_findings_matched", J::Arr(known_lines.iter().map(J::s).collect()));
    }
    let ev = J::obj()
        .set("property_id", J::s(&id))
        .set("tier", J::s(&tier))
        .set("seed", J::Int(seed as i64))
        .set("level", J::s("exploration"))
        .set("coverage", cov)
        .set("assumptions", J::Arr(p.assumptions().into_iter().map(J::s).collect()))
        .set("wall_s", J::Float((wall * 100.0).round() / 100.0))
        .set("violations", J::Int(if reported.is_some() { 1 } else { 0 }));
    let evpath = format!("{vd}/evidence/{id}.json");
    std::fs::write(&evpath, ev.pretty()).map_err(|e| format!("{evpath}: {e}"))?;

    for l in &known_lines {
        println!("{l}");
    }
    println!(
        "{id}: {evaluations} runs in {wall:.1}s ({:.0}/s), {} distinct non-trivial, {} schema shapes, determinism re-check {rechecked} runs / {recheck_mismatch} mismatches",
        evaluations as f64 / wall.max(0.001),
        nontrivial.len(),
        shapes.len()
    );
    if let Some((class, path)) = reported {
        println!("violation class: {class}");
        println!("VIOLATION property={id} replay={path}");
        return Ok(1);
    }
    if evaluations == 0 {
        return Err("no runs executed".into());
    }
    println!("{id}: held on everything explored");
    Ok(0)
}

// ---------------------------------------------------------------------------------------------
// shrink / replay
// ---------------------------------------------------------------------------------------------

fn class_of(p: &dyn Prop, sc: &Scenario) -> Result<Option<(String, String)>, String> {
    let mut ctr = Ctr::new();
    let e = p.exec(sc, &mut ctr)?;
    if e.discarded.is_some() {
        return Ok(None);
    }
    Ok(e.violation.map(|v| (v.class, v.detail)))
}

/// Code under test that is itself nondeterministic (e.g. a change that renders on real threads) may not fail on
/// every execution of the same scenario. Re-execute up to `tries` times; the first failure counts. For
/// deterministic code the first execution already decides and nothing is repeated on the failing path.
fn class_of_retry(p: &dyn Prop, sc: &Scenario, tries: usize) -> Result<(Option<(String, String)>, usize), String> {
    for t in 0..tries {
        if let Some(v) = class_of(p, sc)? {
            return Ok((Some(v), t + 1));
        }
    }
    Ok((None, tries))
}

fn shrink_cmd(args: &[String]) -> Result<i32, String> {
    // shrink <ID> <seed> <run> <out>
    let id = &args[2];
    let seed: u64 = args[3].parse().map_err(|_| "seed")?;
    let run: u64 = args[4].parse().map_err(|_| "run")?;
    let out = &args[5];
    let p = prop(id)?;
    crate::quiet_panics();
    let sc = p.gen(run_seed(seed, id, run));
    let (first, attempts) = class_of_retry(p.as_ref(), &sc, 12)?;
    let Some((class, detail0)) = first else {
        println!("run {run} does not fail when re-executed from its seed (12 attempts)");
        return Ok(3);
    };
    if attempts > 1 {
        // flaky under identical simulated conditions: the code under test has nondeterminism the simulator does not
        // own (real threads, clocks). That is itself reportable; the scenario is kept unshrunk.
        let scj = sc.to_j();
        let j = J::obj()
            .set("property", J::s(id))
            .set("seed", J::Int(seed as i64))
            .set("run", J::Int(run as i64))
            .set("class", J::s(&class))
            .set("witness", J::s(format!("{:016x}", hash_str(&scj.to_string()))))
            .set("detail", J::s(format!("NOT REPRODUCIBLE ON EVERY EXECUTION (failed on attempt {attempts} of the same scenario): the code under test behaves nondeterministically under identical simulated conditions. {detail0}")))
            .set("flaky", J::Bool(true))
            .set("scenario", scj);
        std::fs::write(out, j.pretty()).map_err(|e| format!("{out}: {e}"))?;
        return Ok(0);
    }
    let (min, evals) = match &sc {
        Scenario::Session(s) => {
            let mut pred = |c: &crate::session::Session| -> bool {
                let r = std::panic::catch_unwind(std::panic::AssertUnwindSafe(|| class_of(p.as_ref(), &Scenario::Session(c.clone()))));
                matches!(r, Ok(Ok(Some((cl, _)))) if cl == class)
            };
            let (m, e) = crate::shrink::shrink_session(s, &mut pred, 4000);
            (Scenario::Session(m), e)
        }
        Scenario::Cli(c) => {
            let mut pred = |c: &crate::cli::CliCase| -> bool {
                let r = std::panic::catch_unwind(std::panic::AssertUnwindSafe(|| class_of(p.as_ref(), &Scenario::Cli(c.clone()))));
                matches!(r, Ok(Ok(Some((cl, _)))) if cl == class)
            };
            let (m, e) = crate::shrink::shrink_cli(c, &mut pred, 600);
            (Scenario::Cli(m), e)
        }
    };
    let (class2, detail) = class_of(p.as_ref(), &min)?.ok_or("minimised scenario no longer fails")?;
    if class2 != class {
        return Err("minimised scenario changed class".into());
    }
    let scj = min.to_j();
    let witness = format!("{:016x}", hash_str(&scj.to_string()));
    let j = J::obj()
        .set("property", J::s(id))
        .set("seed", J::Int(seed as i64))
        .set("run", J::Int(run as i64))
        .set("class", J::s(&class))
        .set("witness", J::s(witness))
        .set("detail", J::s(detail))
        .set("shrink_evaluations", J::Int(evals as i64))
        .set("original_size_bytes", J::Int(sc.to_j().to_string().len() as i64))
        .set("minimised_size_bytes", J::Int(scj.to_string().len() as i64))
        .set("scenario", scj);
    std::fs::write(out, j.pretty()).map_err(|e| format!("{out}: {e}"))?;
    Ok(0)
}

/// prefix <ID> <seed> <offset> <stride> <upto> <out>: execute runs offset, offset+stride, .. upto in this one process
fn run_prefix(p: &dyn Prop, id: &str, seed: u64, offset: u64, stride: u64, upto: u64) -> Result<Option<(String, String)>, String> {
    process_prologue(offset);
    let mut run = offset;
    let mut ctr = Ctr::new();
    while run < upto {
        let sc = p.gen(run_seed(seed, id, run));
        let _ = p.exec(&sc, &mut ctr)?;
        run += stride;
    }
    let sc = p.gen(run_seed(seed, id, upto));
    class_of(p, &sc)
}

fn prefix_cmd(args: &[String]) -> Result<i32, String> {
    let id = &args[2];
    let seed: u64 = args[3].parse().map_err(|_| "seed")?;
    let offset: u64 = args[4].parse().map_err(|_| "offset")?;
    let stride: u64 = args[5].parse().map_err(|_| "stride")?;
    let upto: u64 = args[6].parse().map_err(|_| "upto")?;
    let out = &args[7];
    let p = prop(id)?;
    crate::quiet_panics();
    let Some((class, detail)) = run_prefix(p.as_ref(), id, seed, offset, stride, upto)? else {
        println!("run {upto} does not fail after its worker's prefix either");
        return Ok(3);
    };
    let sc = p.gen(run_seed(seed, id, upto));
    let j = J::obj()
        .set("property", J::s(id))
        .set("seed", J::Int(seed as i64))
        .set("run", J::Int(upto as i64))
        .set("class", J::s(format!("{class}:needs_process_history")))
        .set("witness", J::s(format!("{:016x}", hash_str(&format!("{id}/{seed}/{offset}/{stride}/{upto}")))))
        .set(
            "detail",
            J::s(format!(
                "This scenario holds when executed alone in a fresh process and fails after the runs {offset}, {}, .. (stride {stride}) that the same worker process executed before it: the code under test carries process-wide state from one call to the next. {detail}",
                offset + stride
            )),
        )
        .set("worker_prefix", J::obj().set("offset", J::Int(offset as i64)).set("stride", J::Int(stride as i64)).set("upto", J::Int(upto as i64)))
        .set("scenario", sc.to_j());
    std::fs::write(out, j.pretty()).map_err(|e| format!("{out}: {e}"))?;
    Ok(0)
}

fn replay_cmd(args: &[String]) -> Result<i32, String> {
    let path = args.get(2).ok_or("replay <file>")?;
    let txt = std::fs::read_to_string(path).map_err(|e| format!("{path}: {e}"))?;
    let j = json::parse(&txt)?;
    let id = j.str_of("property")?;
    let p = prop(&id)?;
    crate::quiet_panics();
    if let Some(w) = j.get("worker_prefix") {
        let seed = j.int_of("seed")? as u64;
        let r = run_prefix(p.as_ref(), &id, seed, w.int_of("offset")? as u64, w.int_of("stride")? as u64, w.int_of("upto")? as u64)?;
        return Ok(match r {
            Some((class, detail)) => {
                println!("REPLAYED class={class}:needs_process_history");
                println!("{detail}");
                println!("VIOLATION property={id} replay={path}");
                1
            }
            None => {
                println!("replay of {path}: property {id} holds on this run prefix");
                0
            }
        });
    }
    let sc = Scenario::from_j(j.get("scenario").ok_or("no scenario")?)?;
    {
        // a scenario recorded because a worker hung must not hang the replay: wall-clock safety net
        let id = id.clone();
        let path = path.clone();
        std::thread::spawn(move || {
            std::thread::sleep(std::time::Duration::from_secs(120));
            println!("REPLAYED class=worker_process_died");
            println!("the scenario was still executing after 120 s");
            println!("VIOLATION property={id} replay={path}");
            std::process::exit(1);
        });
    }
    let tries = if matches!(j.get("flaky"), Some(J::Bool(true))) { 40 } else { 1 };
    match class_of_retry(p.as_ref(), &sc, tries)?.0 {
        Some((class, detail)) => {
            println!("REPLAYED class={class}");
            println!("{detail}");
            println!("VIOLATION property={id} replay={path}");
            Ok(1)
        }
        None => {
            println!("replay of {path}: property {id} holds on this scenario");
            Ok(0)
        }
    }
}

// ---------------------------------------------------------------------------------------------
// selfcheck: determinism of the harness across worker layouts and processes
// ---------------------------------------------------------------------------------------------

fn selfcheck(args: &[String]) -> Result<i32, String> {
    // Determinism proof: for several VERIF_SEED values, every property's first n runs are executed at 1, 4 and 16
    // worker processes (different process layouts, different run-to-process assignment) and at 16 a second time;
    // all trace hashes must agree run by run.
    let n: u64 = args.get(2).and_then(|s| s.parse().ok()).unwrap_or(20_000);
    println!("entropy seam canary: {}", crate::entropy::canary()?);
    let seed0 = env_seed();
    let mut report = String::new();
    for p in props::all() {
        let id = p.id();
        // process-spawning properties are two orders of magnitude slower per run
        let n = if id == "C12" { (n / 10).max(500) } else { n };
        for seed in [seed0, seed0 + 1, seed0 + 2] {
            let mut base: Option<BTreeMap<u64, u64>> = None;
            for workers in [1u64, 4, 16, 16] {
                let b = run_batch(id, seed, n, workers, "-", n, 0)?;
                let mut m = BTreeMap::new();
                for r in &b.results {
                    if !r.finished {
                        return Err(format!("{id}: worker did not finish: {}", r.stderr));
                    }
                    for (run, t) in &r.ends {
                        m.insert(*run, *t);
                    }
                }
                match &base {
                    None => base = Some(m),
                    Some(b0) => {
                        let diff = b0.iter().filter(|(k, v)| m.get(k) != Some(v)).count();
                        if diff > 0 || b0.len() != m.len() {
                            println!("SELF-CHECK FAILED: {id} seed {seed}: {diff} of {} traces differ at {workers} workers", b0.len());
                            return Ok(2);
                        }
                    }
                }
            }
            let line = format!("{id}: VERIF_SEED={seed}: {n} runs, traces identical across 1 / 4 / 16 / 16 worker processes");
            println!("{line}");
            report.push_str(&line);
            report.push('\n');
        }
    }
    let path = format!("{}/evidence/SELFCHECK.txt", verif_dir());
    let _ = std::fs::write(&path, report);
    println!("self-check passed; summary written to {path}");
    Ok(0)
}
