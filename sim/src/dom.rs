//! Ground-truth documents: DOM trees generated from the run's PRNG and serialised to bytes.
//! The reference model and the validators work on these trees, never on the parser under test.

use crate::json::J;
use crate::rng::Rng;

#[derive(Clone, Debug, PartialEq)]
pub struct Attr {
    pub name: String,
    pub value: String, // already escaped for the chosen quote
    pub quote: u8,     // b'"' or b'\''
}

#[derive(Clone, Debug, PartialEq)]
pub enum Node {
    Elem(Elem),
    Text(String),  // serialised form (entities already escaped); never empty
    CData(String), // may be empty; never contains "]]>"
    Comment(String),
    PI(String),
}

#[derive(Clone, Debug, PartialEq)]
pub struct Elem {
    pub name: String,
    pub attrs: Vec<Attr>,
    pub kids: Vec<Node>,
    /// only meaningful when `kids` is empty: `<x/>` instead of `<x></x>`
    pub selfclose: bool,
    /// whitespace style inside the tags (0..=3)
    pub ws: u8,
}

#[derive(Clone, Debug, PartialEq)]
pub enum Misc {
    Decl(String),
    DocType(String),
    Comment(String),
    PI(String),
    Ws(String),
}

#[derive(Clone, Debug, PartialEq)]
pub struct Doc {
    pub prolog: Vec<Misc>,
    pub root: Elem,
    pub epilog: Vec<Misc>,
    /// the stream ends early, at a token boundary: the end tags that would close the last branch (and the
    /// epilog) never arrive. The reader reports a plain end of input then, and the library takes the elements
    /// as they stand - so the document counts exactly like its complete form
    pub unclosed: bool,
}

pub fn local(name: &str) -> &str {
    match name.find(':') {
        Some(i) => &name[i + 1..],
        None => name,
    }
}

impl Elem {
    pub fn new(name: &str) -> Elem {
        Elem { name: name.to_string(), attrs: vec![], kids: vec![], selfclose: false, ws: 0 }
    }
    pub fn elems(&self) -> impl Iterator<Item = &Elem> {
        self.kids.iter().filter_map(|k| if let Node::Elem(e) = k { Some(e) } else { None })
    }
    pub fn has_text(&self) -> bool {
        self.kids.iter().any(|k| matches!(k, Node::Text(_) | Node::CData(_)))
    }
    pub fn count(&self) -> usize {
        1 + self.elems().map(|e| e.count()).sum::<usize>()
    }
    pub fn depth(&self) -> usize {
        1 + self.elems().map(|e| e.depth()).max().unwrap_or(0)
    }
    pub fn ser(&self, out: &mut Vec<u8>) {
        self.ser_inner(out, false)
    }
    /// `open`: leave out this element's end tag and those of the last branch below it
    pub fn ser_inner(&self, out: &mut Vec<u8>, open: bool) {
        out.push(b'<');
        out.extend_from_slice(self.name.as_bytes());
        for a in &self.attrs {
            match self.ws {
                2 => out.extend_from_slice(b"\n  "),
                3 => out.push(b'\t'),
                _ => out.push(b' '),
            }
            out.extend_from_slice(a.name.as_bytes());
            if self.ws == 2 {
                out.extend_from_slice(b" = ");
            } else {
                out.push(b'=');
            }
            out.push(a.quote);
            out.extend_from_slice(a.value.as_bytes());
            out.push(a.quote);
        }
        match self.ws {
            1 => out.push(b' '),
            2 => out.push(b'\n'),
            _ => {}
        }
        if self.kids.is_empty() && self.selfclose {
            out.extend_from_slice(b"/>");
            return;
        }
        out.push(b'>');
        let last = self.kids.len().wrapping_sub(1);
        for (ki, k) in self.kids.iter().enumerate() {
            match k {
                Node::Elem(e) => e.ser_inner(out, open && ki == last),
                Node::Text(t) => out.extend_from_slice(t.as_bytes()),
                Node::CData(t) => {
                    out.extend_from_slice(b"<![CDATA[");
                    out.extend_from_slice(t.as_bytes());
                    out.extend_from_slice(b"]]>");
                }
                Node::Comment(t) => {
                    out.extend_from_slice(b"<!--");
                    out.extend_from_slice(t.as_bytes());
                    out.extend_from_slice(b"-->");
                }
                Node::PI(t) => {
                    out.extend_from_slice(b"<?");
                    out.extend_from_slice(t.as_bytes());
                    out.extend_from_slice(b"?>");
                }
            }
        }
        if open {
            return;
        }
        out.extend_from_slice(b"</");
        out.extend_from_slice(self.name.as_bytes());
        match self.ws {
            1 => out.push(b' '),
            2 => out.push(b'\n'),
            _ => {}
        }
        out.push(b'>');
    }

    pub fn to_j(&self) -> J {
        let mut o = J::obj().set("n", J::s(&self.name));
        if !self.attrs.is_empty() {
            o.put(
                "a",
                J::Arr(
                    self.attrs
                        .iter()
                        .map(|a| J::Arr(vec![J::s(&a.name), J::s(&a.value), J::s((a.quote as char).to_string())]))
                        .collect(),
                ),
            );
        }
        if !self.kids.is_empty() {
            o.put(
                "k",
                J::Arr(
                    self.kids
                        .iter()
                        .map(|k| match k {
                            Node::Elem(e) => e.to_j(),
                            Node::Text(t) => J::obj().set("t", J::s(t)),
                            Node::CData(t) => J::obj().set("cd", J::s(t)),
                            Node::Comment(t) => J::obj().set("c", J::s(t)),
                            Node::PI(t) => J::obj().set("pi", J::s(t)),
                        })
                        .collect(),
                ),
            );
        }
        if self.selfclose {
            o.put("sc", J::Bool(true));
        }
        if self.ws != 0 {
            o.put("ws", J::Int(self.ws as i64));
        }
        o
    }

    pub fn from_j(j: &J) -> Result<Elem, String> {
        let mut e = Elem::new(&j.str_of("n")?);
        if let Some(J::Arr(a)) = j.get("a") {
            for x in a {
                let x = x.as_arr()?;
                e.attrs.push(Attr {
                    name: x[0].as_str()?.to_string(),
                    value: x[1].as_str()?.to_string(),
                    quote: x[2].as_str()?.as_bytes()[0],
                });
            }
        }
        if let Some(J::Arr(k)) = j.get("k") {
            for x in k {
                if x.get("n").is_some() {
                    e.kids.push(Node::Elem(Elem::from_j(x)?));
                } else if let Some(J::Str(t)) = x.get("t") {
                    e.kids.push(Node::Text(t.clone()));
                } else if let Some(J::Str(t)) = x.get("cd") {
                    e.kids.push(Node::CData(t.clone()));
                } else if let Some(J::Str(t)) = x.get("c") {
                    e.kids.push(Node::Comment(t.clone()));
                } else if let Some(J::Str(t)) = x.get("pi") {
                    e.kids.push(Node::PI(t.clone()));
                } else {
                    return Err("bad node".into());
                }
            }
        }
        if let Some(J::Bool(b)) = j.get("sc") {
            e.selfclose = *b;
        }
        if let Some(J::Int(w)) = j.get("ws") {
            e.ws = *w as u8;
        }
        Ok(e)
    }
}

impl Doc {
    pub fn plain(root: Elem) -> Doc {
        Doc { prolog: vec![], root, epilog: vec![], unclosed: false }
    }
    /// the complete form, whatever `unclosed` says
    pub fn ser_closed(&self) -> Vec<u8> {
        let mut d = self.clone();
        d.unclosed = false;
        d.ser()
    }
    pub fn ser(&self) -> Vec<u8> {
        let mut out = Vec::new();
        for m in &self.prolog {
            ser_misc(m, &mut out);
        }
        if self.unclosed {
            self.root.ser_inner(&mut out, true);
            return out;
        }
        self.root.ser(&mut out);
        for m in &self.epilog {
            ser_misc(m, &mut out);
        }
        out
    }
    pub fn to_j(&self) -> J {
        let mut o = J::obj();
        o.put("xml", J::s(String::from_utf8_lossy(&self.ser()).to_string()));
        if !self.prolog.is_empty() {
            o.put("prolog", J::Arr(self.prolog.iter().map(misc_j).collect()));
        }
        o.put("root", self.root.to_j());
        if self.unclosed {
            o.put("unclosed", J::Bool(true));
        }
        if !self.epilog.is_empty() {
            o.put("epilog", J::Arr(self.epilog.iter().map(misc_j).collect()));
        }
        o
    }
    pub fn from_j(j: &J) -> Result<Doc, String> {
        let mut d = Doc::plain(Elem::from_j(j.get("root").ok_or("doc without root")?)?);
        d.unclosed = matches!(j.get("unclosed"), Some(J::Bool(true)));
        if let Some(J::Arr(a)) = j.get("prolog") {
            for m in a {
                d.prolog.push(j_misc(m)?);
            }
        }
        if let Some(J::Arr(a)) = j.get("epilog") {
            for m in a {
                d.epilog.push(j_misc(m)?);
            }
        }
        Ok(d)
    }
}

fn ser_misc(m: &Misc, out: &mut Vec<u8>) {
    match m {
        Misc::Decl(t) => {
            out.extend_from_slice(b"<?xml ");
            out.extend_from_slice(t.as_bytes());
            out.extend_from_slice(b"?>");
        }
        Misc::DocType(t) => {
            out.extend_from_slice(b"<!DOCTYPE ");
            out.extend_from_slice(t.as_bytes());
            out.push(b'>');
        }
        Misc::Comment(t) => {
            out.extend_from_slice(b"<!--");
            out.extend_from_slice(t.as_bytes());
            out.extend_from_slice(b"-->");
        }
        Misc::PI(t) => {
            out.extend_from_slice(b"<?");
            out.extend_from_slice(t.as_bytes());
            out.extend_from_slice(b"?>");
        }
        Misc::Ws(t) => out.extend_from_slice(t.as_bytes()),
    }
}

fn misc_j(m: &Misc) -> J {
    match m {
        Misc::Decl(t) => J::obj().set("decl", J::s(t)),
        Misc::DocType(t) => J::obj().set("doctype", J::s(t)),
        Misc::Comment(t) => J::obj().set("c", J::s(t)),
        Misc::PI(t) => J::obj().set("pi", J::s(t)),
        Misc::Ws(t) => J::obj().set("ws", J::s(t)),
    }
}

fn j_misc(j: &J) -> Result<Misc, String> {
    for (k, f) in [
        ("decl", Misc::Decl as fn(String) -> Misc),
        ("doctype", Misc::DocType),
        ("c", Misc::Comment),
        ("pi", Misc::PI),
        ("ws", Misc::Ws),
    ] {
        if let Some(J::Str(t)) = j.get(k) {
            return Ok(f(t.clone()));
        }
    }
    Err("bad misc".into())
}

// ---------------------------------------------------------------------------------------------
// name pools
// ---------------------------------------------------------------------------------------------

/// element names: plain, prefixed, keyword-like, case / separator variants that collide after
/// snake/Pascal-casing, suffix-scheme look-alikes, type-like names, non-ASCII
pub const ELEM_NAMES: &[&str] = &[
    "a", "b", "c", "d", "item", "name", "id", "value", "h:b", "x:item", "x:a", "h:a", "type", "Type", "self", "Self",
    "crate", "loop", "Foo", "foo", "FOO", "foo_1", "Foo_1", "a-b", "a_b", "a.b", "AB", "aB", "Total", "Price",
    "TotalPrice", "total_price", "text", "Text", "text_content", "String", "string", "Option", "Vec", "привет",
    "Привет", "a1", "a_1", "_a", "b_attr", "r", "p", "x:p",
    // non-ASCII names with other byte alignments / widths
    "aпривет", "é", "naïve", "日本語", "a日本", "x:привет", "ÉCOLE", "école", "straße", "İi",
    // names that vanish or shrink under case conversion
    "_", "__", "_.", "_-_", "x:_", "_1", "A", "a_", "a__b",
    // names that are concatenations / prefixes of other names (separator-less keys collide on them)
    "ab", "bc", "abc", "ca", "items", "item", "sid", "i", "dx", "idx",
    // combining marks and conjuncts (escaped by Debug formatting, reordered by normalisation)
    "e\u{301}x", "ez", "e\u{301}", "\u{915}\u{94d}\u{937}", "\u{915}\u{92e}", "a\u{308}b", "ab\u{308}",
    // names that begin with a numeric character that is not an ASCII digit
    "\u{b2}x", "\u{bd}", "\u{663}a", "\u{2460}", "\u{2163}b",
    // more than one colon (the local part starts after the first one)
    "n:b:c", "a:b:id",
    // pairs that collide under weak, popular hashes (31-polynomial: Aa/BB; FNV-1a 32: costarring/liquid)
    "Aa", "BB", "NodeAa", "NodeBB", "costarring", "liquid",
    // UTF-16 code-unit order differs from code-point order for these
    "\u{10400}a", "\u{ff41}b", "\u{e000}c",
    // the replacement character is a legal name character; lossy decoding maps any broken sequence onto it
    "x\u{fffd}", "x\u{fffd}y",
    // names other vocabularies treat specially
    "br", "hr", "img", "meta", "html", "body", "script",
];

pub const ATTR_NAMES: &[&str] = &[
    "a", "b", "c", "id", "name", "type", "Type", "self", "xml:lang", "xml:space", "xml:space", "xml:id", "xsi:nil", "xsi:type", "xsi:schemaLocation", "xmlns:xsi", "xmlns:h", "xmlns", "h:a", "x:a", "h:b", "Foo",
    "foo", "FOO", "a-b", "a_b", "a.b", "text", "text_attr", "b_attr", "foo_1", "привет", "value", "xmlns:x", "loop",
    "aпривет", "abcdeé", "é", "日本語", "a日本", "xmlnsé", "xmlns:é", "xml:é", "ÉCOLE", "école",
    "_", "__", "_.", "x:_", "_1", "a__b",
    "ab", "bc", "abc", "x", "i", "dx", "idx", "sid", "d",
    "line2", "line10", "v9", "v10", "n:k:id", "Aa", "BB", "costarring", "liquid", "\u{10400}a", "\u{ff41}b", "k\u{fffd}", "xmlns:p", "xmlns:q", "xmlns:r",
];

const TEXTS: &[&str] = &[
    "x", "hello world", "42", " ", "\n  ", "\n", "&amp;", "&lt;b&gt;", "&#x41;", "&#65;", "a &amp; b", "]]", "--", "?",
    "текст", "\t", " padded ", "'", "\"", "/>", "=",
    // references to entities a DTD may declare (the reader does not resolve them; they are ordinary non-empty text)
    "&e;", "&nbsp;", "a&copy;b", "&e;&e;",
    // values a type-guessing renderer would react to
    "true", "false", "0", "1", "-1", "3.14", "1e3", "null", "NaN", "2024-09-28", "yes",
    // characters that are legal content but that tools strip or treat as blank
    "\u{feff}", "\u{a0}", "\u{3000}", "\u{200b}", "a\u{feff}b",
];
const CDATAS: &[&str] = &["\u{feff}", "", "x", "<b>not an element</b>", " ", "]]", "&amp;", "a]]b", "-->", "?>", "текст"];
const COMMENTS: &[&str] = &[
    "", " c ", "<x/>", "<x a='1'>", "- - ", "]]>", "?>", "&", "текст", " <r> ",
    // comments other tools give a meaning to (sample generators, editors, build systems)
    "Optional:", "Zero or more repetitions:", "1 or more repetitions:", " TODO ", "#region", " xml-model ", " prettier-ignore ", "[if IE]>x<![endif]",
];
const PIS: &[&str] = &["p", "p d", "php echo '<x/>'; ", "x-y a=\"1\"", "p >", "p <r>"];
const VALUES: &[&str] = &["default", "preserve", "true", "false", "0", "&e;", "&nbsp;", "a&co;b", "", "1", "v", "a b", "&amp;", "&lt;", ">", "x=y", "/>", "текст", " ", "&#10;", "--", "]]>"];
const DECLS: &[&str] = &[
    "version=\"1.0\"",
    "version=\"1.0\" encoding=\"UTF-8\"",
    "version='1.0' encoding='utf-8' standalone='yes'",
    "version=\"1.1\" ",
    "version=\"1.0\" encoding=\"ISO-8859-1\"",
    "version=\"1.0\" encoding=\"US-ASCII\" standalone=\"no\"",
    "version=\"1.0\" encoding=\"UTF8\"",
];
const DOCTYPES: &[&str] = &[
    "r",
    "r SYSTEM \"r.dtd\"",
    "r PUBLIC \"-//X//Y\" \"r.dtd\"",
    "r [<!ELEMENT r (p*)> <!ATTLIST p a CDATA #IMPLIED>]",
    "r [ <!ENTITY e \"v\"> ]",
    "html",
];
const WS: &[&str] = &[" ", "\n", "\n\n", "\r\n", "\t", "  \n  "];

// ---------------------------------------------------------------------------------------------
// generator: schema skeleton → document instances
// ---------------------------------------------------------------------------------------------

#[derive(Clone, Debug)]
pub struct Skel {
    pub name: String,
    pub attrs: Vec<String>,
    pub text_pct: u32,
    pub kids: Vec<Skel>,
}

/// swarm configuration: drawn once per run, so that runs differ in kind and not only in detail
#[derive(Clone, Debug)]
pub struct GenCfg {
    pub elem_names: Vec<String>,
    pub attr_names: Vec<String>,
    pub max_depth: usize,
    pub max_kids: usize,
    pub max_attrs: usize,
    pub max_elems: usize,
    /// C01 precondition: no two sibling names / attribute names differing only by prefix
    pub no_prefix_twins: bool,
    pub p_absent: u32,
    pub p_multi: u32,
    pub p_attr_absent: u32,
    pub p_shuffle: u32,
    pub p_hollow: u32,
    pub p_text: u32,
    pub p_cdata: u32,
    pub p_comment: u32,
    pub p_pi: u32,
    pub p_ws_text: u32,
    pub p_selfclose: u32,
    pub p_prolog: u32,
    pub ws_styles: bool,
    /// percentage of text nodes / attribute values / (per skeleton) names that are very long
    pub p_long: u32,
}

impl GenCfg {
    pub fn draw(rng: &mut Rng, bias_collide: bool) -> GenCfg {
        let n_en = rng.range(2, 7);
        let n_an = rng.range(1, 5);
        let mut elem_names: Vec<String> = Vec::new();
        if bias_collide || rng.pct(40) {
            // seed the pool with a group of names whose field keys or struct names collide
            let groups: &[&[&str]] = &[
                &["Foo", "foo", "FOO", "foo_1"],
                &["a-b", "a_b", "a.b", "AB", "aB"],
                &["Total", "Price", "TotalPrice", "total_price"],
                &["type", "Type", "self", "Self"],
                &["text", "Text", "text_content"],
                &["h:b", "b", "h:a", "a", "x:a"],
                &["привет", "Привет"],
                &["a1", "a_1", "a"],
                &["a", "b", "c", "ab", "bc", "abc"],
                &["item", "items", "id", "sid", "i", "dx"],
                &["Aa", "BB", "AaAa", "BBBB", "AaBB"],
                &["NodeAa", "NodeBB", "costarring", "liquid"],
                &["\u{10400}a", "\u{ff41}b", "\u{e000}c", "z"],
                &["p:item", "q:item", "r:item", "item"],
                &["x\u{fffd}", "x\u{fffd}y", "x"],
                &["n:b:c", "b:c", "c", "n:c"],
                &["item", "Item", "ITEM", "item_3", "item_1", "item_2"],
                &["line2", "line10", "line1", "v9", "v10"],
            ];
            let g = *rng.pick(groups);
            for n in g {
                if rng.pct(75) {
                    elem_names.push(n.to_string());
                }
            }
        }
        while elem_names.len() < n_en {
            let n = rng.pick(ELEM_NAMES).to_string();
            if !elem_names.contains(&n) {
                elem_names.push(n);
            }
        }
        let mut attr_names: Vec<String> = Vec::new();
        while attr_names.len() < n_an {
            let n = rng.pick(ATTR_NAMES).to_string();
            if !attr_names.contains(&n) {
                attr_names.push(n);
            }
        }
        if rng.pct(12) {
            // attribute names that are concatenations of each other: (a, bc) and (ab, c) spell the same string
            let groups: &[&[&str]] = &[&["a", "b", "c", "ab", "bc", "abc"], &["id", "x", "i", "dx", "idx", "d"], &["item", "s", "items", "id", "sid"]];
            attr_names = rng.pick(groups).iter().map(|s| s.to_string()).collect();
        }
        if rng.pct(30) {
            // attribute names that clash with element names in the identifier map
            for n in elem_names.clone() {
                if rng.pct(50) && !n.contains(':') && !attr_names.contains(&n) {
                    attr_names.push(n);
                }
            }
        }
        if rng.pct(25) {
            // fresh names: this run's names carry a random letter suffix, so that a long-lived process keeps meeting
            // names it has never seen (bounded symbol tables, interners and caches fill up and roll over at some point)
            let sfx: String = (0..4).map(|_| (b'a' + rng.below(26) as u8) as char).collect();
            for n in elem_names.iter_mut().chain(attr_names.iter_mut()) {
                if !n.starts_with("xml") && !n.contains(':') {
                    n.push_str(&sfx);
                }
            }
        }
        let max_attrs = *rng.pick(&[0usize, 1, 2, 3, 5, 5, 14]);
        if max_attrs > 8 {
            // wide attribute lists (thresholds such as "more than 8 attributes" hide behind them)
            for i in 0..16 {
                attr_names.push(format!("w{i}"));
            }
        }
        GenCfg {
            elem_names,
            attr_names,
            max_depth: *rng.pick(&[2, 3, 3, 4, 5, 8]),
            max_kids: *rng.pick(&[1, 2, 3, 3, 4, 6]),
            max_attrs,
            max_elems: *rng.pick(&[6, 12, 25, 60]),
            no_prefix_twins: false,
            p_absent: *rng.pick(&[0, 10, 30, 30, 60]),
            p_multi: *rng.pick(&[0, 10, 30, 50]),
            p_attr_absent: *rng.pick(&[0, 20, 50]),
            p_shuffle: *rng.pick(&[0, 0, 30, 100]),
            p_hollow: *rng.pick(&[0, 10, 30]),
            p_text: *rng.pick(&[0, 10, 40]),
            p_cdata: *rng.pick(&[0, 0, 15]),
            p_comment: *rng.pick(&[0, 0, 15]),
            p_pi: *rng.pick(&[0, 0, 10]),
            p_ws_text: *rng.pick(&[0, 0, 0, 50, 100]),
            p_selfclose: *rng.pick(&[0, 50, 50, 100]),
            p_prolog: *rng.pick(&[0, 30, 100]),
            ws_styles: rng.pct(30),
            p_long: *rng.pick(&[0, 0, 0, 0, 3, 8]),
        }
    }
}

fn twin(chosen: &[String], cand: &str) -> bool {
    chosen.iter().any(|c| c != cand && local(c) == local(cand))
}

pub fn gen_skel(rng: &mut Rng, cfg: &GenCfg, name: &str, depth: usize, budget: &mut usize) -> Skel {
    let mut attrs: Vec<String> = Vec::new();
    if cfg.max_attrs > 0 {
        let n = rng.below(cfg.max_attrs + 1);
        for _ in 0..n {
            let a = rng.pick(&cfg.attr_names).clone();
            if attrs.contains(&a) || (cfg.no_prefix_twins && twin(&attrs, &a)) {
                continue;
            }
            attrs.push(a);
        }
    }
    let mut kids = Vec::new();
    if depth < cfg.max_depth && *budget > 0 {
        let n = rng.below(cfg.max_kids + 1);
        let mut names: Vec<String> = Vec::new();
        for _ in 0..n {
            let k = if rng.pct(8) {
                name.to_string()
            } else if rng.pct(cfg.p_long) {
                // a very long element name (kept distinct by its length)
                let n = long_len(rng).min(1100);
                "n".repeat(n)
            } else {
                rng.pick(&cfg.elem_names).clone()
            };
            if names.contains(&k) || (cfg.no_prefix_twins && twin(&names, &k)) {
                continue;
            }
            names.push(k);
        }
        for k in names {
            if *budget == 0 {
                break;
            }
            *budget -= 1;
            kids.push(gen_skel(rng, cfg, &k, depth + 1, budget));
        }
    }
    Skel { name: name.to_string(), attrs, text_pct: if rng.pct(cfg.p_text) { *rng.pick(&[30, 100]) } else { 0 }, kids }
}

fn misc_node(rng: &mut Rng, cfg: &GenCfg, kids: &mut Vec<Node>) {
    if rng.pct(cfg.p_comment) {
        kids.push(Node::Comment(rng.pick(COMMENTS).to_string()));
    }
    if rng.pct(cfg.p_pi) {
        if rng.pct(25) {
            // processing instructions other tools give a meaning to, naming an element of this document
            let target = *rng.pick(&["xml-multiple", "xml-stylesheet", "xml-model", "oxygen", "xml-single"]);
            let name = rng.pick(&cfg.elem_names).clone();
            kids.push(Node::PI(if rng.pct(50) { format!("{target} {name}") } else { format!("{target} /r/{name}") }));
        } else {
            kids.push(Node::PI(rng.pick(PIS).to_string()));
        }
    }
    if rng.pct(cfg.p_ws_text) {
        kids.push(Node::Text(rng.pick(&["\n", "\n  ", " ", "\t"]).to_string()));
    }
}

/// sizes around the powers of two where buffers and thresholds live
fn long_len(rng: &mut Rng) -> usize {
    // rarely a token of several hundred kilobytes up to more than a megabyte (buffer-growth thresholds)
    if rng.pct(1) {
        return *rng.pick(&[300_000usize, 600_000, 1_100_000]);
    }
    let base = if rng.pct(4) { 8192 } else { *rng.pick(&[16usize, 64, 128, 256, 256, 1024]) };
    base + rng.below(5) - 2
}

fn long_text(rng: &mut Rng) -> String {
    let n = long_len(rng);
    let unit = *rng.pick(&["x", "ab ", "é", "&amp;", "\n ", "日", "aé", "\u{10400}"]);
    // a short ASCII lead-in shifts the multi-byte characters against every power-of-two offset
    let lead = &"abc"[..rng.below(4)];
    format!("{lead}{}", unit.repeat(n / unit.len() + 1))
}

fn value_for(rng: &mut Rng) -> (String, u8) {
    let q = if rng.pct(70) { b'"' } else { b'\'' };
    let mut v = rng.pick(VALUES).to_string();
    if rng.pct(10) {
        v.push(if q == b'"' { '\'' } else { '"' });
    }
    (v, q)
}

pub fn inst(rng: &mut Rng, cfg: &GenCfg, sk: &Skel, budget: &mut usize) -> Elem {
    let mut e = Elem::new(&sk.name);
    if cfg.ws_styles {
        e.ws = rng.below(4) as u8;
    }
    let mut attrs: Vec<&String> = sk.attrs.iter().filter(|_| !rng.pct(cfg.p_attr_absent)).collect();
    if rng.pct(cfg.p_shuffle) {
        rng.shuffle(&mut attrs);
    }
    for a in attrs {
        let (mut value, quote) = value_for(rng);
        if rng.pct(cfg.p_long) {
            value = long_text(rng);
        }
        if a.starts_with("xmlns") && rng.pct(80) {
            // namespace names come from a tiny pool: several prefixes bound to the same name are the norm
            value = rng.pick(&["urn:a", "urn:b", "http://example.org/ns"]).to_string();
        }
        e.attrs.push(Attr { name: a.clone(), value, quote });
    }
    let hollow = rng.pct(cfg.p_hollow);
    let mut elems: Vec<&Skel> = Vec::new();
    if !hollow {
        for k in &sk.kids {
            if rng.pct(cfg.p_absent) {
                continue;
            }
            let n = if rng.pct(cfg.p_multi) { rng.range(2, 3) } else { 1 };
            for _ in 0..n {
                elems.push(k);
            }
        }
        if rng.pct(cfg.p_shuffle) {
            rng.shuffle(&mut elems);
        }
    }
    let mut kids: Vec<Node> = Vec::new();
    let text_here = !hollow && rng.pct(sk.text_pct);
    for k in elems {
        if *budget == 0 {
            break;
        }
        *budget -= 1;
        misc_node(rng, cfg, &mut kids);
        if text_here && rng.pct(30) {
            kids.push(Node::Text(rng.pick(TEXTS).to_string()));
        }
        kids.push(Node::Elem(inst(rng, cfg, k, budget)));
    }
    misc_node(rng, cfg, &mut kids);
    if text_here {
        if rng.pct(cfg.p_long) {
            let t = long_text(rng);
            kids.push(if rng.pct(30) { Node::CData(t.replace("&amp;", "&")) } else { Node::Text(t) });
        } else if rng.pct(cfg.p_cdata.max(10)) {
            kids.push(Node::CData(rng.pick(CDATAS).to_string()));
        } else {
            kids.push(Node::Text(rng.pick(TEXTS).to_string()));
        }
        if rng.pct(cfg.p_cdata) {
            kids.push(Node::CData(rng.pick(CDATAS).to_string()));
        }
    }
    // two adjacent Text nodes are one text run for any reader; keep the DOM canonical
    let mut canon: Vec<Node> = Vec::new();
    for k in kids {
        if let (Some(Node::Text(prev)), Node::Text(t)) = (canon.last_mut(), &k) {
            prev.push_str(t);
            continue;
        }
        canon.push(k);
    }
    e.kids = canon;
    e.selfclose = rng.pct(cfg.p_selfclose);
    e
}

pub fn gen_prolog(rng: &mut Rng, cfg: &GenCfg, root: &str) -> (Vec<Misc>, Vec<Misc>) {
    let mut pro = Vec::new();
    let mut epi = Vec::new();
    if rng.pct(cfg.p_prolog) {
        if rng.pct(12) {
            // UTF-8 byte order mark: legal at the very start; readers strip it or hand it over as leading text
            pro.push(Misc::Ws("\u{FEFF}".to_string()));
        }
        if rng.pct(70) {
            pro.push(Misc::Decl(rng.pick(DECLS).to_string()));
        }
        if rng.pct(50) {
            pro.push(Misc::Ws(rng.pick(WS).to_string()));
        }
        if rng.pct(30) {
            pro.push(Misc::Comment(rng.pick(COMMENTS).to_string()));
        }
        if rng.pct(30) {
            let d = rng.pick(DOCTYPES).to_string();
            if rng.pct(40) && !cfg.attr_names.is_empty() {
                // an internal subset that talks about this document's own names (declarations a DTD-aware tool would act on)
                let e = if rng.pct(50) { root.to_string() } else { rng.pick(&cfg.elem_names).clone() };
                let a = rng.pick(&cfg.attr_names).clone();
                let dflt = *rng.pick(&["#IMPLIED", "#REQUIRED", "\"v\"", "#FIXED \"v\""]);
                pro.push(Misc::DocType(format!("{root} [<!ELEMENT {e} ANY> <!ATTLIST {e} {a} CDATA {dflt}> <!ENTITY e \"v\">]")));
            } else {
                // keep the DOCTYPE name in line with the root where it is the plain form
                pro.push(Misc::DocType(if d == "r" { root.to_string() } else { d }));
            }
        }
        if rng.pct(20) {
            pro.push(Misc::PI(rng.pick(PIS).to_string()));
        }
        if rng.pct(40) {
            pro.push(Misc::Ws(rng.pick(WS).to_string()));
        }
        if rng.pct(40) {
            epi.push(Misc::Ws(rng.pick(WS).to_string()));
        }
        if rng.pct(20) {
            epi.push(Misc::Comment(rng.pick(COMMENTS).to_string()));
        }
        if rng.pct(10) {
            epi.push(Misc::PI(rng.pick(PIS).to_string()));
        }
    }
    (pro, epi)
}

pub fn gen_doc(rng: &mut Rng, cfg: &GenCfg, sk: &Skel) -> Doc {
    let mut budget = cfg.max_elems;
    let root = inst(rng, cfg, sk, &mut budget);
    let (prolog, epilog) = gen_prolog(rng, cfg, &sk.name);
    Doc { prolog, root, epilog, unclosed: false }
}

/// Rewrite a document's incidental detail without touching its structure (C11): attribute values,
/// non-empty text ↔ other non-empty text, text ↔ CDATA, comments / PIs in or out, prolog in or out,
/// `<x/>` ↔ `<x></x>`, in-tag whitespace. Returns the rewritten document and which rewrites fired.
pub fn rewrite(rng: &mut Rng, d: &Doc, fired: &mut Vec<&'static str>) -> Doc {
    fn note(fired: &mut Vec<&'static str>, k: &'static str) {
        if !fired.contains(&k) {
            fired.push(k);
        }
    }
    fn rw(rng: &mut Rng, e: &Elem, fired: &mut Vec<&'static str>) -> Elem {
        let mut out = Elem::new(&e.name);
        out.ws = if rng.pct(30) {
            note(fired, "tag_whitespace");
            rng.below(4) as u8
        } else {
            e.ws
        };
        for a in &e.attrs {
            if rng.pct(50) {
                let (value, quote) = value_for(rng);
                note(fired, "attr_value");
                out.attrs.push(Attr { name: a.name.clone(), value, quote });
            } else {
                out.attrs.push(a.clone());
            }
        }
        let mut kids: Vec<Node> = Vec::new();
        for k in &e.kids {
            if rng.pct(10) {
                note(fired, "comment_inserted");
                kids.push(Node::Comment(rng.pick(COMMENTS).to_string()));
            }
            if rng.pct(5) {
                note(fired, "pi_inserted");
                kids.push(Node::PI(rng.pick(PIS).to_string()));
            }
            match k {
                Node::Elem(c) => kids.push(Node::Elem(rw(rng, c, fired))),
                Node::Text(t) => {
                    if rng.pct(30) {
                        note(fired, "text_to_cdata");
                        kids.push(Node::CData(rng.pick(CDATAS).to_string()));
                    } else if rng.pct(40) {
                        note(fired, "text_replaced");
                        kids.push(Node::Text(rng.pick(TEXTS).to_string()));
                    } else {
                        kids.push(Node::Text(t.clone()));
                    }
                }
                Node::CData(t) => {
                    if rng.pct(40) {
                        note(fired, "cdata_to_text");
                        kids.push(Node::Text(rng.pick(TEXTS).to_string()));
                    } else if rng.pct(30) {
                        note(fired, "cdata_replaced");
                        kids.push(Node::CData(rng.pick(CDATAS).to_string()));
                    } else {
                        kids.push(Node::CData(t.clone()));
                    }
                }
                Node::Comment(t) => {
                    if rng.pct(50) {
                        note(fired, "comment_removed");
                    } else {
                        kids.push(Node::Comment(t.clone()));
                    }
                }
                Node::PI(t) => {
                    if rng.pct(50) {
                        note(fired, "pi_removed");
                    } else {
                        kids.push(Node::PI(t.clone()));
                    }
                }
            }
        }
        if !e.kids.is_empty() && rng.pct(10) {
            note(fired, "comment_inserted");
            kids.push(Node::Comment(rng.pick(COMMENTS).to_string()));
        }
        // merging adjacent text runs keeps "presence of character data" as it was
        let mut canon: Vec<Node> = Vec::new();
        for k in kids {
            if let (Some(Node::Text(prev)), Node::Text(t)) = (canon.last_mut(), &k) {
                prev.push_str(t);
                continue;
            }
            canon.push(k);
        }
        out.kids = canon;
        out.selfclose = if e.kids.is_empty() && rng.pct(50) {
            note(fired, "empty_form_swapped");
            !e.selfclose
        } else {
            e.selfclose
        };
        // an element that had no child nodes at all must not gain a comment (that would keep `<x/>`
        // impossible but is still structure-preserving); nothing to do: comments are only inserted
        // next to existing nodes above.
        out
    }
    let root = rw(rng, &d.root, fired);
    let mut cfg = GenCfg::draw(&mut rng.fork(), false);
    cfg.p_prolog = *rng.pick(&[0, 100]);
    let (prolog, epilog) = if rng.pct(60) {
        note(fired, "prolog_changed");
        gen_prolog(rng, &cfg, &d.root.name)
    } else {
        (d.prolog.clone(), d.epilog.clone())
    };
    Doc { prolog, root, epilog, unclosed: d.unclosed }
}

/// Near-miss renaming used for warm-up documents: for some parent/child pairs move the first character of the
/// child's name to the end of the parent's name (`items/id` -> `itemsi/d`), or flip the case of a name.
pub fn shift_names(rng: &mut Rng, e: &mut Elem) {
    let first_kid: Option<String> = e.elems().next().map(|c| c.name.clone());
    if let Some(k) = first_kid {
        let mut chars = k.chars();
        if let (Some(c0), true) = (chars.next(), k.chars().count() > 1) {
            let rest: String = chars.collect();
            let ok = rest.chars().next().map(|c| c.is_alphabetic() || c == '_').unwrap_or(false);
            if ok && rng.pct(60) {
                let old = e.name.clone();
                e.name.push(c0);
                let _ = old;
                for kid in e.kids.iter_mut() {
                    if let Node::Elem(c) = kid {
                        if c.name == k {
                            c.name = rest.clone();
                        }
                    }
                }
            }
        }
    }
    if rng.pct(20) {
        e.name = if rng.pct(50) { e.name.to_uppercase() } else { e.name.to_lowercase() };
    }
    // attributes: move the owner's last character in front of the attribute name (`item sid` <- `items id`)
    if rng.pct(30) && e.name.chars().count() > 1 {
        let last = e.name.chars().last().unwrap();
        if last.is_alphabetic() {
            let n: String = e.name.chars().take(e.name.chars().count() - 1).collect();
            e.name = n;
            for a in e.attrs.iter_mut() {
                if !a.name.contains(':') {
                    a.name = format!("{last}{}", a.name);
                }
            }
        }
    }
    for kid in e.kids.iter_mut() {
        if let Node::Elem(c) = kid {
            shift_names(rng, c);
        }
    }
}
