//! Seam S2: the byte source. `SimReader` is a `BufRead` over a byte string and an explicit *plan*:
//! where the chunk boundaries fall, at which `fill_buf` calls an `Interrupted` is returned, and whether
//! and where the stream fails hard (I/O error) or ends early (truncation).

use std::io::{self, BufRead, ErrorKind, Read};

use crate::json::J;
use crate::rng::Rng;

#[derive(Clone, Debug, PartialEq)]
pub enum Fault {
    None,
    /// hard I/O error once the reader has delivered `at` bytes
    Io { at: usize, kind: String },
    /// clean EOF after `at` bytes
    Truncate { at: usize },
}

#[derive(Clone, Debug, PartialEq)]
pub struct Plan {
    /// sorted offsets (0 < c < len) at which a chunk ends; empty = the whole input is one chunk
    pub cuts: Vec<usize>,
    /// fill_buf call indices (0-based, counted over all calls) that return `Interrupted`
    pub eintr: Vec<usize>,
    pub fault: Fault,
    /// 0 = hand the SimReader to quick-xml directly; n>0 = wrap it in std `BufReader::with_capacity(n, _)`
    pub bufreader_cap: usize,
    /// use `&[u8]` as the reader (the path the unit tests use); ignores every other field
    pub slice: bool,
    /// the hard I/O error is transient: it is returned once, after which the source delivers the rest
    /// (what `std::io::BufReader` over a timed-out socket does)
    pub io_once: bool,
    /// interleaving point: at this fill_buf call (0-based) the reader parks its thread until the simulator has run
    /// the next replica to completion - two parses are then in flight in the process at the same time, the
    /// parked one stopped at a chosen place inside its document
    pub park_at: Option<usize>,
    /// re-entrancy point: at this fill_buf call the byte source itself parses and renders a small, complete,
    /// unrelated document on the same thread before it answers (an include mechanism, a logging reader, a
    /// validating wrapper): two library calls nested on one thread
    pub nested_at: Option<usize>,
    /// slow source: at this fill_buf call `delay_secs` of simulated time pass on the reading thread before it answers
    pub delay_at: Option<usize>,
    pub delay_secs: u64,
}

/// what a re-entrant byte source does; set by the session runner (it lives in session.rs, which knows the library)
pub static NESTED_CALL: std::sync::OnceLock<fn()> = std::sync::OnceLock::new();

thread_local! {
    /// (tell the simulator "I am parked", wait for "go on"); installed by the session runner for a parking replica
    pub static PARK: std::cell::RefCell<Option<(std::sync::mpsc::Sender<()>, std::sync::mpsc::Receiver<()>)>> = const { std::cell::RefCell::new(None) };
}

fn park_here() -> bool {
    PARK.with(|p| {
        if let Some((tx, rx)) = p.borrow_mut().take() {
            // one park per replica: the channel pair is consumed
            let _ = tx.send(());
            let _ = rx.recv();
            true
        } else {
            false
        }
    })
}

impl Plan {
    pub fn slice() -> Plan {
        Plan { cuts: vec![], eintr: vec![], fault: Fault::None, bufreader_cap: 0, slice: true, io_once: false, park_at: None, nested_at: None, delay_at: None, delay_secs: 0 }
    }
    pub fn whole() -> Plan {
        Plan { cuts: vec![], eintr: vec![], fault: Fault::None, bufreader_cap: 0, slice: false, io_once: false, park_at: None, nested_at: None, delay_at: None, delay_secs: 0 }
    }
    pub fn is_trivial(&self) -> bool {
        self.slice || (self.cuts.is_empty() && self.eintr.is_empty() && self.fault == Fault::None && self.bufreader_cap == 0)
    }
    pub fn to_j(&self) -> J {
        if self.slice {
            return J::obj().set("slice", J::Bool(true));
        }
        let mut o = J::obj();
        o.put("cuts", J::Arr(self.cuts.iter().map(|c| J::Int(*c as i64)).collect()));
        o.put("eintr", J::Arr(self.eintr.iter().map(|c| J::Int(*c as i64)).collect()));
        match &self.fault {
            Fault::None => {}
            Fault::Io { at, kind } => o.put("fault", J::obj().set("io", J::s(kind)).set("at", J::Int(*at as i64))),
            Fault::Truncate { at } => o.put("fault", J::obj().set("truncate", J::Bool(true)).set("at", J::Int(*at as i64))),
        }
        o.put("bufreader_cap", J::Int(self.bufreader_cap as i64));
        if self.io_once {
            o.put("io_once", J::Bool(true));
        }
        if let Some(k) = self.park_at {
            o.put("park_at", J::Int(k as i64));
        }
        if let Some(k) = self.nested_at {
            o.put("nested_at", J::Int(k as i64));
        }
        if let Some(k) = self.delay_at {
            o.put("delay_at", J::Int(k as i64));
            o.put("delay_secs", J::Int(self.delay_secs as i64));
        }
        o
    }
    pub fn from_j(j: &J) -> Result<Plan, String> {
        if let Some(J::Bool(true)) = j.get("slice") {
            return Ok(Plan::slice());
        }
        let mut p = Plan::whole();
        for c in j.arr_of("cuts")? {
            p.cuts.push(c.as_int()? as usize);
        }
        for c in j.arr_of("eintr")? {
            p.eintr.push(c.as_int()? as usize);
        }
        if let Some(f) = j.get("fault") {
            let at = f.int_of("at")? as usize;
            p.fault = if let Some(J::Str(k)) = f.get("io") { Fault::Io { at, kind: k.clone() } } else { Fault::Truncate { at } };
        }
        p.bufreader_cap = j.int_of("bufreader_cap")? as usize;
        p.io_once = matches!(j.get("io_once"), Some(J::Bool(true)));
        p.park_at = j.int_of("park_at").ok().map(|k| k as usize);
        p.nested_at = j.int_of("nested_at").ok().map(|k| k as usize);
        p.delay_at = j.int_of("delay_at").ok().map(|k| k as usize);
        p.delay_secs = j.int_of("delay_secs").unwrap_or(0) as u64;
        Ok(p)
    }

    /// Draw a transparent plan (chunking, EINTR, optional BufReader wrapper — no hard fault).
    pub fn draw_transparent(rng: &mut Rng, data: &[u8]) -> Plan {
        let len = data.len();
        let mut p = Plan::whole();
        match rng.below(10) {
            0 => {}
            1 | 2 => {
                let n = rng.range(1, 8);
                p.cuts = (1..len).filter(|i| i % n == 0).collect();
            }
            3 | 4 | 5 => {
                let m = *rng.pick(&[3usize, 17, 64]);
                let mut i = 0;
                loop {
                    i += rng.range(1, m);
                    if i >= len {
                        break;
                    }
                    p.cuts.push(i);
                }
            }
            6 | 7 | 8 => {
                // adversarial: cut right before / after markup-significant bytes and inside UTF-8 sequences
                let dens = *rng.pick(&[30u32, 60, 100]);
                for i in 1..len {
                    let a = data[i - 1];
                    let b = data[i];
                    let sig = |c: u8| matches!(c, b'<' | b'>' | b'&' | b';' | b'-' | b']' | b'[' | b'?' | b'"' | b'\'' | b'/' | b'!' | b'=');
                    if (sig(a) || sig(b) || (b & 0xC0) == 0x80) && rng.pct(dens) {
                        p.cuts.push(i);
                    }
                }
            }
            _ => {
                // two chunks
                if len > 1 {
                    p.cuts.push(rng.range(1, len - 1));
                }
            }
        }
        if rng.pct(35) {
            let calls = p.cuts.len() + 2;
            let n = rng.range(1, 4);
            for _ in 0..n {
                let at = rng.below(calls + 2);
                let burst = rng.range(1, 3);
                for b in 0..burst {
                    p.eintr.push(at + b);
                }
            }
            p.eintr.sort();
            p.eintr.dedup();
        }
        if rng.pct(30) {
            p.bufreader_cap = match rng.below(20) {
                0..=13 => rng.range(1, 64),
                14 | 15 => rng.range(65, 600),
                // capacities around the input length: the last fill ends exactly at / just before / just after EOF
                16 => len.max(2) - 1,
                17 => len.max(1),
                18 => len + 1,
                _ => 8192,
            };
        }
        p
    }

    /// add one hard fault at a PRNG-chosen offset, biased towards the inside of markup
    pub fn draw_fault(rng: &mut Rng, data: &[u8]) -> Fault {
        let len = data.len();
        if len == 0 {
            return Fault::None;
        }
        let at = if rng.pct(50) {
            // inside or right after a tag
            let lts: Vec<usize> = (0..len).filter(|i| matches!(data[*i], b'<' | b'>' | b'=' | b'"' | b'-' | b']')).collect();
            if lts.is_empty() {
                rng.below(len)
            } else {
                (*rng.pick(&lts) + rng.below(3)).min(len - 1)
            }
        } else {
            rng.below(len)
        };
        if rng.pct(40) {
            Fault::Truncate { at }
        } else {
            // a trailing `!` = the error carries no payload (`io::Error::from(kind)`, what std itself returns in places);
            // `os:<n>` = an error made from an OS error number; otherwise a custom error with a message
            Fault::Io { at, kind: rng.pick(&["Other", "UnexpectedEof", "WouldBlock", "BrokenPipe", "InvalidData", "TimedOut", "InvalidData!", "UnexpectedEof!", "Other!", "os:5", "os:11", "os:104"]).to_string() }
        }
    }
}

pub fn make_error(kind: &str) -> io::Error {
    if let Some(n) = kind.strip_prefix("os:") {
        return io::Error::from_raw_os_error(n.parse().unwrap_or(5));
    }
    if let Some(k) = kind.strip_suffix('!') {
        return io::Error::from(kind_of(k));
    }
    io::Error::new(kind_of(kind), "simulated I/O failure")
}

pub fn kind_of(s: &str) -> ErrorKind {
    match s {
        "UnexpectedEof" => ErrorKind::UnexpectedEof,
        "WouldBlock" => ErrorKind::WouldBlock,
        "BrokenPipe" => ErrorKind::BrokenPipe,
        "InvalidData" => ErrorKind::InvalidData,
        "TimedOut" => ErrorKind::TimedOut,
        _ => ErrorKind::Other,
    }
}

pub const BUDGET_MARK: &str = "SIMREADER-STEP-BUDGET-EXCEEDED";

#[derive(Default, Clone, Debug)]
pub struct ReadStats {
    pub fill_calls: u64,
    pub eintr_fired: u64,
    pub io_fired: u64,
    pub truncated: u64,
    pub chunks: u64,
    pub eof_polls: u64,
    pub parked: u64,
    pub nested: u64,
    pub delayed: u64,
}

pub struct SimReader<'a> {
    data: &'a [u8],
    plan: &'a Plan,
    pos: usize,
    /// end of the currently exposed chunk (pos..chunk_end is what fill_buf shows)
    chunk_end: usize,
    calls: usize,
    budget: usize,
    end: usize,
    io_done: bool,
    pub stats: ReadStats,
    /// log of every fill_buf outcome, for the trace hash
    pub log: crate::rng::Fnv,
}

impl<'a> SimReader<'a> {
    pub fn new(data: &'a [u8], plan: &'a Plan) -> Self {
        let end = match plan.fault {
            Fault::Truncate { at } => at.min(data.len()),
            _ => data.len(),
        };
        // logical time bound: termination within a stated number of reader steps (C07 liveness)
        let budget = 64 + 8 * data.len() + plan.eintr.len() + 4 * 256;
        SimReader { data, plan, pos: 0, chunk_end: 0, calls: 0, budget, end, io_done: false, stats: ReadStats::default(), log: crate::rng::Fnv::new() }
    }
    fn next_chunk_end(&self) -> usize {
        // first cut strictly greater than pos, else end
        // cuts are sorted: binary search keeps large inputs with dense cuts linear overall
        let i = self.plan.cuts.partition_point(|c| *c <= self.pos);
        match self.plan.cuts.get(i) {
            Some(c) => (*c).min(self.end),
            None => self.end,
        }
    }
}

impl<'a> BufRead for SimReader<'a> {
    fn fill_buf(&mut self) -> io::Result<&[u8]> {
        let idx = self.calls;
        self.calls += 1;
        self.stats.fill_calls += 1;
        if self.calls > self.budget {
            panic!("{}", BUDGET_MARK);
        }
        if self.plan.park_at == Some(idx) && park_here() {
            self.stats.parked += 1;
        }
        if self.plan.delay_at == Some(idx) {
            // an odd number of seconds moves all clocks forward; an even number steps the wall clock back by that much
            if self.plan.delay_secs % 2 == 1 {
                crate::entropy::advance_clock(self.plan.delay_secs);
            } else {
                crate::entropy::step_wall_clock_back(self.plan.delay_secs);
            }
            self.stats.delayed += 1;
        }
        if self.plan.nested_at == Some(idx) {
            if let Some(f) = NESTED_CALL.get() {
                self.stats.nested += 1;
                f();
            }
        }
        if self.plan.eintr.contains(&idx) {
            self.stats.eintr_fired += 1;
            self.log.u64(u64::MAX);
            return Err(io::Error::new(ErrorKind::Interrupted, "simulated EINTR"));
        }
        if self.chunk_end > self.pos {
            // an exposed chunk stays exposed until consumed
            self.log.u64((self.chunk_end - self.pos) as u64);
            return Ok(&self.data[self.pos..self.chunk_end]);
        }
        if let Fault::Io { at, kind } = &self.plan.fault {
            if self.pos >= (*at).min(self.data.len()) && !(self.plan.io_once && self.io_done) {
                self.io_done = true;
                self.stats.io_fired += 1;
                self.log.u64(u64::MAX - 1);
                return Err(make_error(kind));
            }
        }
        if self.pos >= self.end {
            if self.end < self.data.len() {
                self.stats.truncated += 1;
            }
            self.stats.eof_polls += 1;
            self.log.u64(0);
            return Ok(&[]);
        }
        let mut ce = self.next_chunk_end();
        if let Fault::Io { at, .. } = &self.plan.fault {
            // bytes before the fault point are delivered first; what follows comes only after the error
            if *at > self.pos {
                ce = ce.min(*at);
            }
        }
        self.chunk_end = ce;
        self.stats.chunks += 1;
        self.log.u64((self.chunk_end - self.pos) as u64);
        Ok(&self.data[self.pos..self.chunk_end])
    }
    fn consume(&mut self, amt: usize) {
        assert!(self.pos + amt <= self.chunk_end.max(self.pos), "consume past the exposed chunk");
        self.pos += amt;
    }
}

impl<'a> Read for SimReader<'a> {
    fn read(&mut self, buf: &mut [u8]) -> io::Result<usize> {
        let n = {
            let b = self.fill_buf()?;
            let n = b.len().min(buf.len());
            buf[..n].copy_from_slice(&b[..n]);
            n
        };
        self.consume(n);
        Ok(n)
    }
}

/// number of chunk boundaries that fall strictly inside a markup token (`<...>`), per token kind
pub fn straddles(data: &[u8], plan: &Plan) -> Vec<(&'static str, u64)> {
    let mut out: Vec<(&'static str, u64)> = vec![("tag", 0), ("comment", 0), ("cdata", 0), ("doctype", 0), ("pi", 0), ("text", 0), ("utf8", 0)];
    if plan.slice || plan.cuts.is_empty() {
        return out;
    }
    // classify every byte offset by the token it is in (simple scanner over well-formed or damaged input)
    let mut cls = vec![5u8; data.len() + 1];
    let mut i = 0;
    while i < data.len() {
        if data[i] == b'<' {
            let (k, term): (u8, &[u8]) = if data[i..].starts_with(b"<!--") {
                (1, b"-->")
            } else if data[i..].starts_with(b"<![CDATA[") {
                (2, b"]]>")
            } else if data[i..].starts_with(b"<!") {
                (3, b">")
            } else if data[i..].starts_with(b"<?") {
                (4, b"?>")
            } else {
                (0, b">")
            };
            let mut j = i + 1;
            while j < data.len() && !data[j..].starts_with(term) {
                j += 1;
            }
            let e = (j + term.len()).min(data.len());
            for c in cls.iter_mut().take(e).skip(i + 1) {
                *c = k; // offsets strictly inside the token
            }
            i = e;
        } else {
            i += 1;
        }
    }
    for c in &plan.cuts {
        if *c < data.len() {
            if (data[*c] & 0xC0) == 0x80 {
                out[6].1 += 1;
            }
            out[cls[*c] as usize].1 += 1;
        }
    }
    out
}
