//! Hostile byte strings for C07 / C08: byte-level mutation of serialised documents, raw random bytes,
//! deep chains. Everything is drawn from the run's PRNG.

use crate::dom::{gen_doc, gen_skel, GenCfg};
use crate::rng::Rng;

const TOKENS: &[&[u8]] = &[
    b"<", b">", b"</", b"/>", b"<!--", b"-->", b"<![CDATA[", b"]]>", b"<?", b"?>", b"<!DOCTYPE", b"<!", b"&", b";", b"\"", b"'",
    b"=", b" ", b"<a>", b"</a>", b"<a ", b"<a/>", b"xmlns:", b":", b"\0", b"[", b"]", b"\xEF\xBB\xBF", b"\xFE\xFF", b"\xFF\xFE",
    b"<a b=\"1\" b=\"2\">", b"<a b>", b"<a b=>", b"<a b=c>", b"<a b=\"1>", b"<a b='1' c=\"2\"d=\"3\">", b"&amp;", b"&#x;", b"&bogus;",
    b"<?xml version=\"1.0\"?>", b"<?xml", b"--", b"<:a>", b"<a:>", b"<:>", b"< a>", b"</ a>", b"<a\n>", b"\r\n", b"\t", b"<a/ >",
    b"<?xml version=\"1.0\" encoding=\"\"?>", b"<?xml version=\"1.0\" encoding='8'?>", b"<?xml encoding=\"u\"?>", b"<?xml version=\"\"?>", b"<?xml?>", b"<?xml ?>",
    b"<?xml version=\"1.0\" standalone=\"\"?>", b"<!DOCTYPE>", b"<!DOCTYPE >", b"<!DOCTYPE r [", b"<![CDATA[", b"<!---->", b"<!--->", b"<?>", b"<??>", b"</>", b"<>", b"< >", b"<a a=''/>", b"<a =''/>",
    b"<!-- a -- b -->", b"<!----------->", b"<!-- x --->", b"<!-- -- -->",
    b"<b/>", b"<b>", b"</b>", b"<c/>", b"<b x='1'/>",
    b"<1>", b"<->", b"<a..b>", b"<\xD0\xBF>", b"<x a:b:c='1'/>", b"<xmlns:a/>", b"<a xmlns:=''/>", b"]]", b"<![", b"<![CDATA[]]>",
];

const BAD_UTF8: &[&[u8]] = &[b"\xFF", b"\xC3", b"\xE2\x82", b"\xC0\x80", b"\xED\xA0\x80", b"\xF8\x88\x80\x80\x80", b"\x80", b"\xF0\x9F"];

pub fn base_document(rng: &mut Rng) -> Vec<u8> {
    let mut cfg = GenCfg::draw(rng, false);
    cfg.max_elems = *rng.pick(&[3, 6, 12, 25]);
    if rng.pct(50) {
        cfg.p_comment = 15;
        cfg.p_pi = 10;
        cfg.p_cdata = 15;
        cfg.p_prolog = 100;
    }
    let mut budget = *rng.pick(&[2usize, 5, 10]);
    let root = rng.pick(&["r", "a", "root", "x:r"]).to_string();
    let sk = gen_skel(rng, &cfg, &root, 0, &mut budget);
    gen_doc(rng, &cfg, &sk).ser()
}

pub fn mutate_once(rng: &mut Rng, b: &mut Vec<u8>, other: &[u8]) -> &'static str {
    let len = b.len();
    let pos = |rng: &mut Rng, len: usize| if len == 0 { 0 } else { rng.below(len + 1) };
    match rng.below(14) {
        12 => {
            // an attribute written twice, byte for byte (` name="value"` right after itself)
            let mut spans: Vec<(usize, usize)> = Vec::new();
            let mut i = 0;
            while i < len {
                if b[i] == b' ' {
                    let mut j = i + 1;
                    while j < len && !matches!(b[j], b'=' | b' ' | b'>' | b'<' | b'/') {
                        j += 1;
                    }
                    if j > i + 1 && j + 1 < len && b[j] == b'=' && matches!(b[j + 1], b'"' | b'\'') {
                        let q = b[j + 1];
                        if let Some(e) = b[j + 2..].iter().position(|c| *c == q) {
                            spans.push((i, j + 2 + e + 1));
                        }
                    }
                }
                i += 1;
            }
            if !spans.is_empty() {
                let (s0, e0) = *rng.pick(&spans);
                let region: Vec<u8> = b[s0..e0].to_vec();
                b.splice(e0..e0, region);
            }
            "duplicate_attribute"
        }
        13 => {
            // a multi-byte character damaged the way lossy decoders forgive: replaced by 0xFF, or cut short
            let starts: Vec<usize> = (0..len).filter(|i| b[*i] >= 0xC2 && b[*i] < 0xF5).collect();
            if !starts.is_empty() {
                let p = *rng.pick(&starts);
                let w = if b[p] >= 0xF0 { 4 } else if b[p] >= 0xE0 { 3 } else { 2 }.min(len - p);
                if rng.pct(50) {
                    b.splice(p..p + w, [0xFFu8]);
                } else {
                    b.drain(p + w - 1..p + w);
                }
            }
            "damage_multibyte_char"
        }
        0 | 1 => {
            let t = *rng.pick(TOKENS);
            let p = pos(rng, len);
            b.splice(p..p, t.iter().copied());
            "insert_token"
        }
        2 => {
            if len > 0 {
                let p = rng.below(len);
                let n = rng.range(1, 8).min(len - p);
                b.drain(p..p + n);
            }
            "delete_range"
        }
        3 => {
            if len > 0 {
                let p = rng.below(len);
                b[p] ^= 1 << rng.below(8);
            }
            "flip_bit"
        }
        4 => {
            if len > 0 {
                let p = rng.below(len);
                b[p] = rng.next_u64() as u8;
            }
            "random_byte"
        }
        5 => {
            if len > 0 {
                let p = rng.below(len);
                b.truncate(p);
            }
            "truncate"
        }
        6 => {
            if !other.is_empty() {
                let s = rng.below(other.len());
                let e = (s + rng.range(1, 24)).min(other.len());
                let p = pos(rng, len);
                b.splice(p..p, other[s..e].iter().copied());
            }
            "splice_other"
        }
        7 => {
            if len > 0 {
                let s = rng.below(len);
                let e = (s + rng.range(1, 24)).min(len);
                let region: Vec<u8> = b[s..e].to_vec();
                let p = pos(rng, len);
                b.splice(p..p, region);
            }
            "duplicate_region"
        }
        8 | 9 => {
            // invalid UTF-8 inside a name / key / value / text: right after an ASCII letter
            let letters: Vec<usize> = (0..len).filter(|i| b[*i].is_ascii_alphabetic()).collect();
            let bad = *rng.pick(BAD_UTF8);
            let p = if letters.is_empty() { pos(rng, len) } else { *rng.pick(&letters) + 1 };
            b.splice(p..p, bad.iter().copied());
            "invalid_utf8"
        }
        10 => {
            // swap two bytes
            if len > 1 {
                let i = rng.below(len);
                let j = rng.below(len);
                b.swap(i, j);
            }
            "swap_bytes"
        }
        _ => {
            // remove one markup-significant byte
            let sig: Vec<usize> = (0..len).filter(|i| matches!(b[*i], b'<' | b'>' | b'/' | b'"' | b'\'' | b'=' | b'&' | b';')).collect();
            if !sig.is_empty() {
                let p = *rng.pick(&sig);
                b.remove(p);
            }
            "delete_markup_byte"
        }
    }
}

/// (bytes, family, mutation kinds applied)
pub fn hostile(rng: &mut Rng) -> (Vec<u8>, &'static str, Vec<&'static str>) {
    let mut kinds = Vec::new();
    match rng.below(20) {
        0 => {
            // raw random bytes
            let n = rng.range(0, 64);
            ((0..n).map(|_| rng.next_u64() as u8).collect(), "raw_random", kinds)
        }
        1 => {
            // random bytes over a markup alphabet
            let n = rng.range(0, 48);
            let alpha = b"<>/=\"' ab:!-?[]&;\n";
            ((0..n).map(|_| *rng.pick(alpha)).collect(), "markup_alphabet", kinds)
        }
        2 => {
            // token soup
            let n = rng.range(1, 12);
            let mut v = Vec::new();
            for _ in 0..n {
                let t: &[u8] = *rng.pick(TOKENS);
                v.extend_from_slice(t);
            }
            (v, "token_soup", kinds)
        }
        3 => {
            // deep chain, possibly unclosed / over-closed
            let depth = rng.range(1, 200);
            let same = rng.pct(50);
            let mut v = Vec::new();
            let sib = rng.pct(40);
            for i in 0..depth {
                if same {
                    v.extend_from_slice(b"<a>");
                } else {
                    v.extend_from_slice(format!("<a{i}>").as_bytes());
                }
                if sib {
                    // a second name repeated at every level
                    v.extend_from_slice(if i % 3 == 0 { b"<s/>" } else { b"<s>t</s>" });
                }
            }
            let close = match rng.below(4) {
                0 => 0,
                1 => depth,
                2 => rng.below(depth + 1),
                _ => depth,
            };
            for i in (depth - close..depth).rev() {
                if same {
                    v.extend_from_slice(b"</a>");
                } else {
                    v.extend_from_slice(format!("</a{i}>").as_bytes());
                }
            }
            (v, "deep_chain", kinds)
        }
        4 => (base_document(rng), "valid_document", kinds),
        6 if rng.pct(50) => {
            // several top-level elements: what into_struct returns, and with which position, depends on their order
            let n = rng.range(2, 5);
            let mut v = Vec::new();
            for _ in 0..n {
                match rng.below(4) {
                    0 => v.extend_from_slice(base_document(rng).as_slice()),
                    1 => v.extend_from_slice(b"<a/>"),
                    2 => v.extend_from_slice(b"<b><a/></b>"),
                    _ => v.extend_from_slice(b"<a x='1'>t</a>"),
                }
            }
            (v, "several_top_level_elements", kinds)
        }
        5 if rng.pct(20) => {
            // large but shallow inputs: very wide parents, very many attributes, very long names
            let mut v = Vec::new();
            match rng.below(4) {
                0 => {
                    let n = *rng.pick(&[300usize, 700, 1100, 1500]);
                    let names = *rng.pick(&[1usize, 1, 2, 3, 10, 40]);
                    v.extend_from_slice(b"<r>");
                    let with_content = rng.pct(60);
                    for i in 0..n {
                        let c = rng.below(names);
                        if with_content && rng.pct(70) {
                            v.extend_from_slice(format!("<c{c} a=\"{i}\"><k>t</k>x</c{c}>").as_bytes());
                        } else {
                            v.extend_from_slice(format!("<c{c} a=\"{i}\"/>").as_bytes());
                        }
                    }
                    if rng.pct(70) {
                        v.extend_from_slice(b"</r>");
                    }
                    if rng.pct(60) {
                        // damage in the tail: whatever a count-based fast path skips after many occurrences
                        let from = v.len() - v.len() / 10;
                        let mut tail = v.split_off(from);
                        let other = tail.clone();
                        for _ in 0..rng.range(1, 2) {
                            let k = mutate_once(rng, &mut tail, &other);
                            if !kinds.contains(&k) {
                                kinds.push(k);
                            }
                        }
                        v.extend_from_slice(&tail);
                    }
                }
                1 => {
                    let n = *rng.pick(&[21usize, 33, 65, 100, 300, 800]);
                    v.extend_from_slice(b"<r><p");
                    // names mixing <stem><digits> and <stem><digits><letters> (natural-order comparators trip on them)
                    let sfx = ["", "b", "x", ""];
                    for i in 0..n {
                        v.extend_from_slice(format!(" a{i}{}=\"v\"", sfx[i % 4]).as_bytes());
                    }
                    v.extend_from_slice(b"/><p");
                    for i in (0..n).rev().step_by(2) {
                        v.extend_from_slice(format!(" a{i}{}='w'", sfx[i % 4]).as_bytes());
                    }
                    v.extend_from_slice(b"/></r>");
                }
                2 => {
                    let n = rng.range(1_000, 20_000);
                    let name: String = std::iter::repeat('n').take(n).collect();
                    v.extend_from_slice(format!("<{name} {name}=\"1\"><{name}/></{name}>").as_bytes());
                }
                _ => {
                    let n = rng.range(1_000, 30_000);
                    v.extend_from_slice(b"<r><!--");
                    v.extend(std::iter::repeat(b'c').take(n));
                    v.extend_from_slice(b"--><![CDATA[");
                    v.extend(std::iter::repeat(b'd').take(n / 2));
                    v.extend_from_slice(b"]]></r>");
                }
            }
            (v, "large_shallow", kinds)
        }
        _ => {
            let mut b = base_document(rng);
            let other = base_document(rng);
            let n = *rng.pick(&[1usize, 1, 1, 2, 2, 3, 5, 8]);
            for _ in 0..n {
                let k = mutate_once(rng, &mut b, &other);
                if !kinds.contains(&k) {
                    kinds.push(k);
                }
            }
            (b, "mutated_document", kinds)
        }
    }
}

/// a deep chain (depth 20..=150) that fails part-way: mismatched end tag or nothing closed
pub fn deep_hostile(rng: &mut Rng) -> (Vec<u8>, &'static str, Vec<&'static str>) {
    let depth = rng.range(20, 150);
    let mut v = Vec::new();
    for i in 0..depth {
        v.extend_from_slice(format!("<n{}>", i % 7).as_bytes());
    }
    match rng.below(3) {
        0 => v.extend_from_slice(b"</wrong>"),
        1 => v.extend_from_slice(b"<a b=1>"),
        _ => {}
    }
    (v, "deep_failing_chain", vec![])
}

/// maximum open-tag depth of a byte string as a lenient flat scan sees it (used to enforce the
/// "nested up to depth 200" bound of C07 without running the code under test)
pub fn rough_depth(b: &[u8]) -> usize {
    let mut depth: usize = 0;
    let mut max: usize = 0;
    let mut i = 0;
    while i < b.len() {
        if b[i] == b'<' {
            let next = b.get(i + 1).copied().unwrap_or(0);
            if next == b'/' {
                depth = depth.saturating_sub(1);
            } else if next != b'!' && next != b'?' {
                // `<x ... />` does not open a level
                let mut j = i + 1;
                while j < b.len() && b[j] != b'>' && b[j] != b'<' {
                    j += 1;
                }
                let selfclose = j < b.len() && b[j] == b'>' && b[j - 1] == b'/';
                if !selfclose {
                    depth += 1;
                    max = max.max(depth);
                }
            }
        }
        i += 1;
    }
    max
}

pub fn random_option_string(rng: &mut Rng) -> String {
    const S: &[&str] = &[
        "", "Serialize, Deserialize", "Debug", "Debug, Clone, PartialEq", " ", "\"", "\n", "Привет", ")]\n#[x(", "@", "$text", "$value",
        "text", "attr_", "xmlns:", "\\", "{}", "{", "}", "a b", "\0", "🦀",
        "serde::Serialize, serde::Deserialize", "Clone, serde::Deserialize", "::std::fmt::Debug", "PartialEq, Eq, Hash, Default",
        // what people paste: the whole attribute, or pieces of it
        "#[derive(Debug, Clone)]", "#[derive(Debug)]\n#[serde(deny_unknown_fields)]", "derive(Debug)", "#[derive)(", ")(", "#[", ")]", "(Debug)", "#[derive(]", "Debug,", ", Debug", "Debug,,Clone",
    ];
    let base = rng.pick(S).to_string();
    match rng.below(12) {
        // long values: one very long item, or a long list
        0 => format!("{}{}", "VeryLongQualifiedPathSegment::".repeat(rng.range(3, 12)), "Trait"),
        1 => (0..rng.range(20, 60)).map(|i| format!("T{i}")).collect::<Vec<_>>().join(", "),
        2 => base.repeat(rng.range(2, 40)),
        _ => base,
    }
}
