//! Minimal JSON value, printer and parser (no third-party crate: the harness must build offline from the
//! repository's own lock file). Object keys keep insertion order, so printing is deterministic.

#[derive(Clone, Debug, PartialEq)]
pub enum J {
    Null,
    Bool(bool),
    Int(i64),
    Float(f64),
    Str(String),
    Arr(Vec<J>),
    Obj(Vec<(String, J)>),
}

impl J {
    pub fn obj() -> J {
        J::Obj(Vec::new())
    }
    pub fn s<S: Into<String>>(s: S) -> J {
        J::Str(s.into())
    }
    pub fn set<S: Into<String>>(mut self, k: S, v: J) -> J {
        if let J::Obj(ref mut o) = self {
            let k = k.into();
            if let Some(e) = o.iter_mut().find(|e| e.0 == k) {
                e.1 = v;
            } else {
                o.push((k, v));
            }
        }
        self
    }
    pub fn put<S: Into<String>>(&mut self, k: S, v: J) {
        if let J::Obj(ref mut o) = self {
            let k = k.into();
            if let Some(e) = o.iter_mut().find(|e| e.0 == k) {
                e.1 = v;
            } else {
                o.push((k, v));
            }
        }
    }
    pub fn get(&self, k: &str) -> Option<&J> {
        match self {
            J::Obj(o) => o.iter().find(|e| e.0 == k).map(|e| &e.1),
            _ => None,
        }
    }
    pub fn str_of(&self, k: &str) -> Result<String, String> {
        match self.get(k) {
            Some(J::Str(s)) => Ok(s.clone()),
            _ => Err(format!("missing string field {k}")),
        }
    }
    pub fn int_of(&self, k: &str) -> Result<i64, String> {
        match self.get(k) {
            Some(J::Int(i)) => Ok(*i),
            _ => Err(format!("missing int field {k}")),
        }
    }
    pub fn bool_of(&self, k: &str) -> Result<bool, String> {
        match self.get(k) {
            Some(J::Bool(b)) => Ok(*b),
            _ => Err(format!("missing bool field {k}")),
        }
    }
    pub fn arr_of(&self, k: &str) -> Result<&Vec<J>, String> {
        match self.get(k) {
            Some(J::Arr(a)) => Ok(a),
            _ => Err(format!("missing array field {k}")),
        }
    }
    pub fn as_str(&self) -> Result<&str, String> {
        match self {
            J::Str(s) => Ok(s),
            _ => Err("expected string".into()),
        }
    }
    pub fn as_int(&self) -> Result<i64, String> {
        match self {
            J::Int(i) => Ok(*i),
            _ => Err("expected int".into()),
        }
    }
    pub fn as_arr(&self) -> Result<&Vec<J>, String> {
        match self {
            J::Arr(a) => Ok(a),
            _ => Err("expected array".into()),
        }
    }

    pub fn to_string(&self) -> String {
        let mut s = String::new();
        self.write(&mut s, None, 0);
        s
    }
    pub fn pretty(&self) -> String {
        let mut s = String::new();
        self.write(&mut s, Some(1), 0);
        s.push('\n');
        s
    }
    fn write(&self, out: &mut String, indent: Option<usize>, level: usize) {
        match self {
            J::Null => out.push_str("null"),
            J::Bool(b) => out.push_str(if *b { "true" } else { "false" }),
            J::Int(i) => out.push_str(&i.to_string()),
            J::Float(f) => {
                if f.is_finite() {
                    let s = format!("{}", f);
                    out.push_str(&s);
                    if !s.contains('.') && !s.contains('e') {
                        out.push_str(".0");
                    }
                } else {
                    out.push_str("null")
                }
            }
            J::Str(s) => write_str(out, s),
            J::Arr(a) => {
                if a.is_empty() {
                    out.push_str("[]");
                    return;
                }
                let simple = a.iter().all(|x| !matches!(x, J::Arr(_) | J::Obj(_)));
                out.push('[');
                for (i, x) in a.iter().enumerate() {
                    if i > 0 {
                        out.push(',');
                        if simple && indent.is_some() {
                            out.push(' ');
                        }
                    }
                    if !simple {
                        nl(out, indent, level + 1);
                    }
                    x.write(out, indent, level + 1);
                }
                if !simple {
                    nl(out, indent, level);
                }
                out.push(']');
            }
            J::Obj(o) => {
                if o.is_empty() {
                    out.push_str("{}");
                    return;
                }
                out.push('{');
                for (i, (k, v)) in o.iter().enumerate() {
                    if i > 0 {
                        out.push(',');
                    }
                    nl(out, indent, level + 1);
                    write_str(out, k);
                    out.push(':');
                    if indent.is_some() {
                        out.push(' ');
                    }
                    v.write(out, indent, level + 1);
                }
                nl(out, indent, level);
                out.push('}');
            }
        }
    }
}

fn nl(out: &mut String, indent: Option<usize>, level: usize) {
    if let Some(w) = indent {
        out.push('\n');
        for _ in 0..(w * level) {
            out.push(' ');
        }
    }
}

fn write_str(out: &mut String, s: &str) {
    out.push('"');
    for c in s.chars() {
        match c {
            '"' => out.push_str("\\\""),
            '\\' => out.push_str("\\\\"),
            '\n' => out.push_str("\\n"),
            '\r' => out.push_str("\\r"),
            '\t' => out.push_str("\\t"),
            c if (c as u32) < 0x20 || c == '\u{7f}' => out.push_str(&format!("\\u{:04x}", c as u32)),
            c => out.push(c),
        }
    }
    out.push('"');
}

pub fn parse(s: &str) -> Result<J, String> {
    let b = s.as_bytes();
    let mut p = P { b, i: 0 };
    p.ws();
    let v = p.value()?;
    p.ws();
    if p.i != b.len() {
        return Err(format!("trailing data at {}", p.i));
    }
    Ok(v)
}

struct P<'a> {
    b: &'a [u8],
    i: usize,
}

impl<'a> P<'a> {
    fn ws(&mut self) {
        while self.i < self.b.len() && matches!(self.b[self.i], b' ' | b'\n' | b'\r' | b'\t') {
            self.i += 1;
        }
    }
    fn value(&mut self) -> Result<J, String> {
        self.ws();
        if self.i >= self.b.len() {
            return Err("unexpected end".into());
        }
        match self.b[self.i] {
            b'{' => {
                self.i += 1;
                let mut o = Vec::new();
                self.ws();
                if self.peek() == Some(b'}') {
                    self.i += 1;
                    return Ok(J::Obj(o));
                }
                loop {
                    self.ws();
                    let k = self.string()?;
                    self.ws();
                    self.expect(b':')?;
                    let v = self.value()?;
                    o.push((k, v));
                    self.ws();
                    match self.peek() {
                        Some(b',') => self.i += 1,
                        Some(b'}') => {
                            self.i += 1;
                            return Ok(J::Obj(o));
                        }
                        _ => return Err(format!("expected , or }} at {}", self.i)),
                    }
                }
            }
            b'[' => {
                self.i += 1;
                let mut a = Vec::new();
                self.ws();
                if self.peek() == Some(b']') {
                    self.i += 1;
                    return Ok(J::Arr(a));
                }
                loop {
                    let v = self.value()?;
                    a.push(v);
                    self.ws();
                    match self.peek() {
                        Some(b',') => self.i += 1,
                        Some(b']') => {
                            self.i += 1;
                            return Ok(J::Arr(a));
                        }
                        _ => return Err(format!("expected , or ] at {}", self.i)),
                    }
                }
            }
            b'"' => Ok(J::Str(self.string()?)),
            b't' => self.lit("true", J::Bool(true)),
            b'f' => self.lit("false", J::Bool(false)),
            b'n' => self.lit("null", J::Null),
            _ => self.number(),
        }
    }
    fn peek(&self) -> Option<u8> {
        self.b.get(self.i).copied()
    }
    fn expect(&mut self, c: u8) -> Result<(), String> {
        if self.peek() == Some(c) {
            self.i += 1;
            Ok(())
        } else {
            Err(format!("expected {} at {}", c as char, self.i))
        }
    }
    fn lit(&mut self, l: &str, v: J) -> Result<J, String> {
        if self.b[self.i..].starts_with(l.as_bytes()) {
            self.i += l.len();
            Ok(v)
        } else {
            Err(format!("bad literal at {}", self.i))
        }
    }
    fn number(&mut self) -> Result<J, String> {
        let st = self.i;
        let mut float = false;
        while self.i < self.b.len() {
            match self.b[self.i] {
                b'0'..=b'9' | b'-' | b'+' => self.i += 1,
                b'.' | b'e' | b'E' => {
                    float = true;
                    self.i += 1
                }
                _ => break,
            }
        }
        let t = std::str::from_utf8(&self.b[st..self.i]).map_err(|e| e.to_string())?;
        if float {
            t.parse::<f64>().map(J::Float).map_err(|e| e.to_string())
        } else {
            t.parse::<i64>().map(J::Int).map_err(|e| format!("{e} at {st}"))
        }
    }
    fn string(&mut self) -> Result<String, String> {
        self.expect(b'"')?;
        let mut out = String::new();
        loop {
            if self.i >= self.b.len() {
                return Err("unterminated string".into());
            }
            let c = self.b[self.i];
            match c {
                b'"' => {
                    self.i += 1;
                    return Ok(out);
                }
                b'\\' => {
                    self.i += 1;
                    let e = self.peek().ok_or("bad escape")?;
                    self.i += 1;
                    match e {
                        b'"' => out.push('"'),
                        b'\\' => out.push('\\'),
                        b'/' => out.push('/'),
                        b'n' => out.push('\n'),
                        b'r' => out.push('\r'),
                        b't' => out.push('\t'),
                        b'b' => out.push('\u{8}'),
                        b'f' => out.push('\u{c}'),
                        b'u' => {
                            let h = std::str::from_utf8(&self.b[self.i..self.i + 4]).map_err(|e| e.to_string())?;
                            let v = u32::from_str_radix(h, 16).map_err(|e| e.to_string())?;
                            self.i += 4;
                            out.push(char::from_u32(v).ok_or("bad \\u")?);
                        }
                        _ => return Err("bad escape".into()),
                    }
                }
                _ => {
                    // copy one UTF-8 scalar
                    let st = self.i;
                    self.i += 1;
                    while self.i < self.b.len() && (self.b[self.i] & 0xC0) == 0x80 {
                        self.i += 1;
                    }
                    out.push_str(std::str::from_utf8(&self.b[st..self.i]).map_err(|e| e.to_string())?);
                }
            }
        }
    }
}

pub fn hex(b: &[u8]) -> String {
    let mut s = String::with_capacity(b.len() * 2);
    for x in b {
        s.push_str(&format!("{:02x}", x));
    }
    s
}

pub fn unhex(s: &str) -> Result<Vec<u8>, String> {
    if s.len() % 2 != 0 {
        return Err("odd hex".into());
    }
    (0..s.len() / 2)
        .map(|i| u8::from_str_radix(&s[2 * i..2 * i + 2], 16).map_err(|e| e.to_string()))
        .collect()
}

/// bytes as a JSON value: a plain string when they are printable UTF-8 (readable replay files), hex otherwise
pub fn bytes_j(b: &[u8]) -> J {
    match std::str::from_utf8(b) {
        Ok(s) if !s.chars().any(|c| c == '\u{0}') => J::obj().set("utf8", J::s(s)),
        _ => J::obj().set("hex", J::s(hex(b))),
    }
}

pub fn j_bytes(j: &J) -> Result<Vec<u8>, String> {
    if let Some(J::Str(s)) = j.get("utf8") {
        return Ok(s.as_bytes().to_vec());
    }
    if let Some(J::Str(s)) = j.get("hex") {
        return unhex(s);
    }
    Err("expected {utf8} or {hex}".into())
}
