//! Reference model: the schema determined by a list of DOMs, computed straight from the definition
//! (presence in every occurrence / maximum count per occurrence / any text), with first-appearance order.

use crate::dom::{local, Doc, Elem, Node};

#[derive(Clone, Debug, PartialEq)]
pub struct MNode {
    pub name: String,
    /// (full XML name, mandatory) in order of first appearance
    pub attrs: Vec<(String, bool)>,
    pub text: bool,
    /// children in order of first appearance
    pub kids: Vec<MKid>,
    pub occurrences: usize,
}

#[derive(Clone, Debug, PartialEq)]
pub struct MKid {
    pub node: MNode,
    pub mandatory: bool,
    pub multiple: bool,
}

impl MNode {
    /// typed `String` instead of getting a struct of its own
    pub fn string_typed(&self) -> bool {
        self.text && self.attrs.is_empty() && self.kids.is_empty()
    }
    pub fn kid(&self, name: &str) -> Option<&MKid> {
        self.kids.iter().find(|k| k.node.name == name)
    }
    pub fn positions(&self) -> usize {
        1 + self.kids.iter().map(|k| k.node.positions()).sum::<usize>()
    }
    /// a stable textual shape, used for coverage fingerprints ("distinct schema shapes reached")
    pub fn shape(&self, out: &mut String) {
        out.push('(');
        out.push_str(&format!("{}", self.attrs.len()));
        for a in &self.attrs {
            out.push(if a.1 { 'M' } else { 'o' });
        }
        if self.text {
            out.push('t');
        }
        for k in &self.kids {
            out.push(if k.mandatory { 'M' } else { 'o' });
            out.push(if k.multiple { '*' } else { '1' });
            k.node.shape(out);
        }
        out.push(')');
    }
}

pub fn merge_occurrences(occs: &[&Elem]) -> MNode {
    let name = occs[0].name.clone();
    let mut attrs: Vec<(String, bool)> = Vec::new();
    for o in occs {
        for a in &o.attrs {
            if !attrs.iter().any(|x| x.0 == a.name) {
                attrs.push((a.name.clone(), true));
            }
        }
    }
    for a in attrs.iter_mut() {
        a.1 = occs.iter().all(|o| o.attrs.iter().any(|x| x.name == a.0));
    }
    let text = occs.iter().any(|o| o.kids.iter().any(|k| matches!(k, Node::Text(_) | Node::CData(_))));
    let mut names: Vec<&str> = Vec::new();
    for o in occs {
        for c in o.elems() {
            if !names.contains(&c.name.as_str()) {
                names.push(&c.name);
            }
        }
    }
    let mut kids = Vec::new();
    for n in names {
        let mut child_occs: Vec<&Elem> = Vec::new();
        let mut mandatory = true;
        let mut multiple = false;
        for o in occs {
            let here: Vec<&Elem> = o.elems().filter(|c| c.name == n).collect();
            if here.is_empty() {
                mandatory = false;
            }
            if here.len() >= 2 {
                multiple = true;
            }
            child_occs.extend(here);
        }
        kids.push(MKid { node: merge_occurrences(&child_occs), mandatory, multiple });
    }
    MNode { name, attrs, text, kids, occurrences: occs.len() }
}

/// the schema inferred from documents with a common root, in the given order
pub fn infer(docs: &[&Doc]) -> MNode {
    let roots: Vec<&Elem> = docs.iter().map(|d| &d.root).collect();
    merge_occurrences(&roots)
}

/// serde name an attribute is bound to under the quick-xml preset
pub fn attr_serde(full: &str) -> String {
    if full.starts_with("xmlns:") {
        format!("@{full}")
    } else {
        format!("@{}", local(full))
    }
}
