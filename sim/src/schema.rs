//! Oracles over (observation, reference model, DOMs): exact inference (C03), soundness of the schema
//! for its source documents (C01), field / struct order (C09), order-insensitive canonical form and
//! monotonicity (C06). Each oracle evaluates only what its property states.

use std::collections::BTreeMap;

use crate::dom::{local, Elem, Node};
use crate::model::{attr_serde, MNode};
use crate::observe::{type_ambiguous, Block, Field, Kind, Obs};

pub type Finding = Option<(String, String)>;

fn bad(class: &str, path: &str, detail: String) -> Finding {
    Some((class.to_string(), format!("at {path}: {detail}")))
}

fn sorted<T: Ord>(mut v: Vec<T>) -> Vec<T> {
    v.sort();
    v
}

type ChildDesc = (String, bool, bool, bool);

fn child_fields_obs(b: &Block) -> Vec<ChildDesc> {
    b.fields
        .iter()
        .filter(|f| f.kind == Kind::Child)
        .map(|f| (f.serde.clone(), f.opt, f.vec, f.ty == "String" && !type_ambiguous(&f.serde)))
        .collect()
}

fn child_fields_model(m: &MNode) -> Vec<ChildDesc> {
    m.kids
        .iter()
        .map(|k| {
            let l = local(&k.node.name).to_string();
            let amb = type_ambiguous(&l);
            (l, !k.mandatory, k.multiple, k.node.string_typed() && !amb)
        })
        .collect()
}

// ---------------------------------------------------------------------------------------------
// C03: exactness
// ---------------------------------------------------------------------------------------------

pub fn cmp_exact(o: &Obs, m: &MNode, path: &str) -> Finding {
    let here = format!("{path}/{}", m.name);
    if o.name != m.name {
        return bad("name", &here, format!("schema node is named {:?}", o.name));
    }
    if o.text != m.text {
        return bad("text_flag", &here, format!("text flag is {} but {} occurrence(s) {} character data", o.text, m.occurrences, if m.text { "contain" } else { "contain no" }));
    }
    let oa = sorted(o.block.fields.iter().filter(|f| f.kind == Kind::Attr).map(|f| (f.serde.clone(), f.opt)).collect::<Vec<_>>());
    let ma = sorted(m.attrs.iter().map(|a| (attr_serde(&a.0), !a.1)).collect::<Vec<_>>());
    if oa != ma {
        return bad("attribute_fields", &here, format!("attribute fields (serde name, Option) are {oa:?}, the documents determine {ma:?}"));
    }
    if o.block.fields.iter().any(|f| f.ty != "String" && f.kind != Kind::Child) {
        return bad("attribute_fields", &here, "an attribute or text field is not typed String".into());
    }
    let tf = o.block.fields.iter().filter(|f| f.kind == Kind::Text).count();
    if tf != m.text as usize {
        return bad("text_field", &here, format!("{tf} text field(s) rendered, model says text={}", m.text));
    }
    let on = sorted(o.kids.iter().map(|k| k.name.clone()).collect::<Vec<_>>());
    let mn = sorted(m.kids.iter().map(|k| k.node.name.clone()).collect::<Vec<_>>());
    if on != mn {
        return bad("child_set", &here, format!("children are {on:?}, the documents contain {mn:?}"));
    }
    for k in &m.kids {
        let ok = o.kid(&k.node.name).unwrap();
        if ok.mandatory != k.mandatory {
            return bad(
                "child_optionality",
                &here,
                format!("child {:?} is {} but it is {} in every occurrence", k.node.name, if ok.mandatory { "required" } else { "Option" }, if k.mandatory { "present" } else { "not present" }),
            );
        }
        if ok.standalone == k.multiple {
            return bad(
                "child_multiplicity",
                &here,
                format!("child {:?} is {} but {} parent occurrence contains it more than once", k.node.name, if ok.standalone { "single" } else { "Vec" }, if k.multiple { "some" } else { "no" }),
            );
        }
    }
    let of = sorted(child_fields_obs(&o.block));
    let mf = sorted(child_fields_model(m));
    if of != mf {
        return bad("child_fields", &here, format!("child fields (serde name, Option, Vec, String-typed) are {of:?}, the documents determine {mf:?}"));
    }
    for k in &m.kids {
        if let Some(f) = cmp_exact(o.kid(&k.node.name).unwrap(), &k.node, &here) {
            return Some(f);
        }
    }
    None
}

fn erased_sorted(b: &Block) -> Vec<(Kind, String, bool, bool, bool)> {
    sorted(b.erased())
}

fn collect_struct_blocks(o: &Obs, is_root: bool, out: &mut Vec<Vec<(Kind, String, bool, bool, bool)>>) {
    if is_root || !o.string_typed() {
        out.push(erased_sorted(&o.block));
    }
    for k in &o.kids {
        collect_struct_blocks(k, false, out);
    }
}

/// one struct per non-String position and nothing else: the whole-tree rendering, as a multiset of
/// struct bodies (names erased), is exactly the multiset of per-position bodies
pub fn cmp_struct_set(o: &Obs, whole: &[Block]) -> Finding {
    let mut want = Vec::new();
    collect_struct_blocks(o, true, &mut want);
    let got: Vec<_> = whole.iter().map(erased_sorted).collect();
    if sorted(want.clone()) != sorted(got.clone()) {
        return bad("struct_set", "/", format!("{} struct(s) rendered for {} non-String position(s), or their bodies differ", got.len(), want.len()));
    }
    None
}

// ---------------------------------------------------------------------------------------------
// C01: the schema admits the document
// ---------------------------------------------------------------------------------------------

/// a child element is bound through its local name (the renderer's documented behaviour)
fn binds(serde: &str, name: &str) -> bool {
    serde == local(name)
}

pub fn admits(o: &Obs, e: &Elem, parent_field: Option<&Field>, path: &str) -> Finding {
    let here = format!("{path}/{}", e.name);
    let attrs: Vec<&Field> = o.block.fields.iter().filter(|f| f.kind == Kind::Attr).collect();
    let kids: Vec<&Field> = o.block.fields.iter().filter(|f| f.kind == Kind::Child).collect();
    // an attribute is bound through the name the preset documents: prefix removed, except for `xmlns:*`
    for a in &e.attrs {
        if !attrs.iter().any(|f| f.serde == attr_serde(&a.name)) {
            return bad("attribute_unbound", &here, format!("attribute {:?} has no field bound to {:?}", a.name, attr_serde(&a.name)));
        }
    }
    for f in &attrs {
        if !f.opt && !e.attrs.iter().any(|a| f.serde == attr_serde(&a.name)) {
            return bad("required_attribute_absent", &here, format!("field {:?} is not Option but this occurrence lacks the attribute", f.serde));
        }
    }
    let mut counts: BTreeMap<&str, usize> = BTreeMap::new();
    for c in e.elems() {
        *counts.entry(c.name.as_str()).or_insert(0) += 1;
    }
    for (name, n) in &counts {
        let Some(f) = kids.iter().find(|f| binds(&f.serde, name)) else {
            return bad("child_unbound", &here, format!("child element {name:?} has no field bound to it"));
        };
        if *n > 1 && !f.vec {
            return bad("single_field_repeated", &here, format!("child {name:?} occurs {n} times but its field is not a Vec"));
        }
    }
    for f in &kids {
        if !f.opt && !counts.keys().any(|n| binds(&f.serde, n)) {
            return bad("required_child_absent", &here, format!("field {:?} is not Option but this occurrence lacks the child", f.serde));
        }
    }
    let chars = e.kids.iter().any(|k| matches!(k, Node::Text(_) | Node::CData(_)));
    if chars && !o.block.fields.iter().any(|f| f.kind == Kind::Text) {
        return bad("text_unbound", &here, "occurrence contains character data but the struct has no text field".into());
    }
    if let Some(pf) = parent_field {
        if pf.ty == "String" && !type_ambiguous(&pf.serde) && (!e.attrs.is_empty() || e.elems().next().is_some()) {
            return bad("string_typed_has_structure", &here, "element is typed String but this occurrence has attributes or child elements".into());
        }
        if pf.ty == "String" && !type_ambiguous(&pf.serde) && !o.text && chars {
            return bad("text_unbound", &here, "typed String without a text flag".into());
        }
    }
    for c in e.elems() {
        let Some(ok) = o.kid(&c.name) else {
            return bad("child_unbound", &here, format!("schema tree has no node for child {:?}", c.name));
        };
        let pf = kids.iter().find(|f| binds(&f.serde, &c.name)).copied();
        if let Some(f) = admits(ok, c, pf, &here) {
            return Some(f);
        }
    }
    None
}

/// "The struct for that position" is reached through the type name written in the parent's field. When every
/// element name of the history is a plain lowercase ASCII word, PascalCase names and their ancestor-qualified
/// concatenations are uniquely decodable, so two positions can only share a struct name if the renderer
/// confuses them; then the definition a field refers to is not the one that describes the position.
/// (Outside that name regime the unchanged tree already emits same-named structs - C04's subject - so the
/// oracle is not applied there.)
pub fn cmp_named_resolution(whole: &[Block]) -> Finding {
    for (i, a) in whole.iter().enumerate() {
        for b in whole.iter().skip(i + 1) {
            if a.name == b.name && a.lines != b.lines {
                return bad(
                    "struct_name_refers_to_two_definitions",
                    "/",
                    format!("two different struct definitions are both called {:?}; a field of that type cannot describe both positions:\n{}\n--- and ---\n{}", a.name, a.lines.join("\n"), b.lines.join("\n")),
                );
            }
        }
    }
    for b in whole {
        for f in b.fields.iter().filter(|f| f.kind == Kind::Child && f.ty != "String") {
            if !whole.iter().any(|x| x.name == f.ty) {
                return bad("field_type_undefined", "/", format!("field {:?} of struct {:?} has type {:?}, which is not defined in the output", f.ident, b.name, f.ty));
            }
        }
    }
    None
}

// ---------------------------------------------------------------------------------------------
// C09: order
// ---------------------------------------------------------------------------------------------

/// greedy rank of each observed name in the expected sequence; None for names the model does not have
fn ranks(observed: &[String], expected: &[String]) -> Vec<Option<usize>> {
    let mut used = vec![false; expected.len()];
    observed
        .iter()
        .map(|o| {
            let i = expected.iter().enumerate().position(|(i, e)| !used[i] && e == o)?;
            used[i] = true;
            Some(i)
        })
        .collect()
}

fn increasing(r: &[Option<usize>]) -> bool {
    let known: Vec<usize> = r.iter().flatten().copied().collect();
    known.windows(2).all(|w| w[0] < w[1])
}

fn group_order_ok(b: &Block) -> bool {
    let mut stage = 0;
    for f in &b.fields {
        let s = match f.kind {
            Kind::Attr => 0,
            Kind::Text => 1,
            Kind::Child => 2,
        };
        if s < stage {
            return false;
        }
        stage = s;
    }
    true
}

/// field order inside every struct; `by_name` selects the expectation
pub fn cmp_field_order(o: &Obs, m: &MNode, by_name: bool, path: &str) -> Finding {
    let here = format!("{path}/{}", m.name);
    if !group_order_ok(&o.block) {
        return bad("group_order", &here, format!("fields are not attributes, then text, then children: {:?}", o.block.lines));
    }
    let mut ma: Vec<String> = m.attrs.iter().map(|a| a.0.clone()).collect();
    let mut mk: Vec<String> = m.kids.iter().map(|k| k.node.name.clone()).collect();
    if by_name {
        ma.sort();
        mk.sort();
    }
    let exp_a: Vec<String> = ma.iter().map(|a| attr_serde(a)).collect();
    let exp_k: Vec<String> = mk.iter().map(|k| local(k).to_string()).collect();
    let oa: Vec<String> = o.block.fields.iter().filter(|f| f.kind == Kind::Attr).map(|f| f.serde.clone()).collect();
    let ok: Vec<String> = o.block.fields.iter().filter(|f| f.kind == Kind::Child).map(|f| f.serde.clone()).collect();
    let what = if by_name { "XML-name order" } else { "order of first appearance" };
    if !increasing(&ranks(&oa, &exp_a)) {
        return bad(if by_name { "attribute_order_by_name" } else { "attribute_order" }, &here, format!("attribute fields {oa:?} are not in {what} {exp_a:?}"));
    }
    if !increasing(&ranks(&ok, &exp_k)) {
        return bad(if by_name { "child_order_by_name" } else { "child_order" }, &here, format!("child fields {ok:?} are not in {what} {exp_k:?}"));
    }
    for k in &m.kids {
        if let Some(c) = o.kid(&k.node.name) {
            if let Some(f) = cmp_field_order(c, &k.node, by_name, &here) {
                return Some(f);
            }
        }
    }
    None
}

type Body = Vec<(Kind, String, String, bool, bool)>;

fn body(b: &Block) -> Body {
    b.fields.iter().map(|f| (f.kind.clone(), f.serde.clone(), f.ident.clone(), f.opt, f.vec)).collect()
}

fn preorder(o: &Obs, m: Option<&MNode>, by_name: bool, is_root: bool, out: &mut Vec<Body>) {
    if !is_root && o.string_typed() {
        return;
    }
    out.push(body(&o.block));
    let mut kids: Vec<&Obs> = o.kids.iter().collect();
    if by_name {
        kids.sort_by(|a, b| a.name.cmp(&b.name));
    } else if let Some(m) = m {
        kids.sort_by_key(|k| m.kids.iter().position(|x| x.node.name == k.name).unwrap_or(usize::MAX));
    }
    for k in kids {
        preorder(k, m.and_then(|m| m.kid(&k.name)).map(|x| &x.node), by_name, false, out);
    }
}

/// struct definitions follow a pre-order walk in the same order as the fields
pub fn cmp_struct_order(o: &Obs, m: &MNode, by_name: bool, whole: &[Block]) -> Finding {
    let mut want = Vec::new();
    preorder(o, Some(m), by_name, true, &mut want);
    let got: Vec<Body> = whole.iter().map(body).collect();
    let unordered = |v: &Vec<Body>| sorted(v.iter().map(|b| sorted(b.clone())).collect::<Vec<_>>());
    if unordered(&want) != unordered(&got) {
        // not the same set of structs / fields: C03's business, not an order question
        return None;
    }
    if sorted(want.clone()) != sorted(got.clone()) {
        // same structs with the same fields, but some struct lists its fields in another order inside the whole
        // output than when its element is rendered on its own: the order depends on the context
        let odd = got.iter().position(|g| !want.contains(g)).unwrap_or(0);
        return bad(
            if by_name { "field_order_depends_on_context_by_name" } else { "field_order_depends_on_context" },
            "/",
            format!("struct {:?} of the whole output lists its fields as {:?}, unlike the same element rendered alone", whole[odd].name, got[odd].iter().map(|f| f.1.clone()).collect::<Vec<_>>()),
        );
    }
    if want != got {
        let i = want.iter().zip(got.iter()).position(|(a, b)| a != b).unwrap_or(0);
        return bad(
            if by_name { "struct_order_by_name" } else { "struct_order" },
            "/",
            format!("struct #{i} of the output is {:?} where a pre-order walk puts the one with fields {:?}", whole[i].name, want[i].iter().map(|f| f.1.clone()).collect::<Vec<_>>()),
        );
    }
    None
}

/// switching the sort option changes nothing but order: same structs (by name), same field lines
pub fn cmp_same_content(unsorted: &[Block], by_name: &[Block]) -> Finding {
    let key = |b: &Block| (b.name.clone(), b.derive.clone(), sorted(b.fields.clone()));
    let a = sorted(unsorted.iter().map(key).collect::<Vec<_>>());
    let b = sorted(by_name.iter().map(key).collect::<Vec<_>>());
    if a != b {
        return bad("sort_changes_content", "/", "the two renderings differ in more than order".into());
    }
    None
}

// ---------------------------------------------------------------------------------------------
// C06: canonical form and monotonicity
// ---------------------------------------------------------------------------------------------

/// order-insensitive canonical form of an observation: fields, optionality, multiplicity, text, nesting
#[derive(Clone, Debug, PartialEq)]
pub struct Canon {
    pub name: String,
    pub text: bool,
    pub attrs: BTreeMap<String, bool>,          // serde name -> Option?  (duplicates collapse: counted separately)
    pub attr_count: usize,
    pub kids: BTreeMap<String, (bool, bool, Canon)>, // full name -> (Option?, Vec?, subtree)
}

pub fn canon(o: &Obs) -> Canon {
    let mut attrs = BTreeMap::new();
    let mut attr_count = 0;
    for f in o.block.fields.iter().filter(|f| f.kind == Kind::Attr) {
        attr_count += 1;
        let e = attrs.entry(f.serde.clone()).or_insert(f.opt);
        *e = *e && f.opt;
    }
    let mut kids = BTreeMap::new();
    for k in &o.kids {
        kids.insert(k.name.clone(), (!k.mandatory, !k.standalone, canon(k)));
    }
    Canon { name: o.name.clone(), text: o.text, attrs, attr_count, kids }
}

/// never drops a field, never turns Option into required or Vec into single, never clears a text flag
pub fn monotone(prev: &Canon, next: &Canon, path: &str) -> Finding {
    let here = format!("{path}/{}", prev.name);
    if prev.text && !next.text {
        return bad("text_cleared", &here, "text field disappeared".into());
    }
    for (a, opt) in &prev.attrs {
        match next.attrs.get(a) {
            None => return bad("field_dropped", &here, format!("attribute field {a:?} disappeared")),
            Some(n) if *opt && !*n => return bad("option_became_required", &here, format!("attribute field {a:?} was Option and is now required")),
            _ => {}
        }
    }
    if next.attr_count < prev.attr_count {
        return bad("field_dropped", &here, "an attribute field disappeared".into());
    }
    for (k, (opt, vec, sub)) in &prev.kids {
        match next.kids.get(k) {
            None => return bad("field_dropped", &here, format!("child field {k:?} disappeared")),
            Some((nopt, nvec, nsub)) => {
                if *opt && !*nopt {
                    return bad("option_became_required", &here, format!("child field {k:?} was Option and is now required"));
                }
                if *vec && !*nvec {
                    return bad("vec_became_single", &here, format!("child field {k:?} was a Vec and is now single"));
                }
                if let Some(f) = monotone(sub, nsub, &here) {
                    return Some(f);
                }
            }
        }
    }
    None
}
