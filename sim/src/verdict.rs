//! Independent passes over the reader's event stream.
//!
//! * `verdict`: what C08 says the outcome of parsing must be, computed by draining the events in
//!   stream order and stopping at the first of {reader error, name not UTF-8, attribute error,
//!   key not UTF-8, text/CDATA not UTF-8}; "no element" for an initial parse.
//! * `structure_from_events`: the element/attribute/text structure the reader sees, used to cross-check
//!   the DOM generator (a disagreement is a harness error, never a verdict).

use std::io::BufRead;

use quick_xml::events::attributes::AttrError;
use quick_xml::events::{BytesStart, Event};
use quick_xml::reader::Reader;

use crate::dom::{Elem, Node};

#[derive(Debug, Clone, PartialEq)]
pub enum Verdict {
    Ok { elements: usize },
    /// the reader reported an error: its byte position and `{:?}` of the error
    Syntax { pos: u64, dbg: String, class: String },
    Attr(AttrError),
    Utf8 { bytes: Vec<u8>, what: &'static str },
    NoRoot,
}

impl Verdict {
    pub fn class(&self) -> String {
        match self {
            Verdict::Ok { .. } => "ok".into(),
            Verdict::Syntax { class, .. } => format!("syntax:{class}"),
            Verdict::Attr(e) => format!(
                "attr:{}",
                match e {
                    AttrError::ExpectedEq(_) => "expected_eq",
                    AttrError::ExpectedValue(_) => "expected_value",
                    AttrError::UnquotedValue(_) => "unquoted",
                    AttrError::ExpectedQuote(..) => "expected_quote",
                    AttrError::Duplicated(..) => "duplicated",
                }
            ),
            Verdict::Utf8 { what, .. } => format!("utf8:{what}"),
            Verdict::NoRoot => "no_root".into(),
        }
    }
    pub fn is_ok(&self) -> bool {
        matches!(self, Verdict::Ok { .. })
    }
}

fn tag_check(e: &BytesStart<'_>) -> Option<Verdict> {
    if std::str::from_utf8(e.name().as_ref()).is_err() {
        return Some(Verdict::Utf8 { bytes: e.name().as_ref().to_vec(), what: "name" });
    }
    for a in e.attributes() {
        match a {
            Err(err) => return Some(Verdict::Attr(err)),
            Ok(a) => {
                if std::str::from_utf8(a.key.as_ref()).is_err() {
                    return Some(Verdict::Utf8 { bytes: a.key.as_ref().to_vec(), what: "key" });
                }
            }
        }
    }
    None
}

pub fn error_class(e: &quick_xml::Error) -> String {
    let d = format!("{e:?}");
    // variant path up to the first '(' or '{' of the innermost payload, e.g. "Syntax(UnclosedTag)" / "IllFormed(MismatchedEndTag"
    let mut out = String::new();
    let mut depth = 0;
    for c in d.chars() {
        match c {
            '(' => {
                depth += 1;
                if depth > 2 {
                    break;
                }
                out.push(c)
            }
            '{' | ' ' | '"' => break,
            _ => out.push(c),
        }
    }
    out
}

pub fn verdict<R: BufRead>(reader: &mut Reader<R>, initial: bool) -> Verdict {
    let mut buf = Vec::new();
    let mut elements = 0usize;
    let mut depth = 0usize;
    loop {
        match reader.read_event_into(&mut buf) {
            Err(e) => {
                return Verdict::Syntax { pos: reader.buffer_position(), dbg: format!("{e:?}"), class: error_class(&e) };
            }
            Ok(Event::Eof) => break,
            Ok(Event::End(_)) => {
                // An end tag that closes nothing opened *in this call* ends the call: the caller had consumed the
                // matching start tag itself (with a fresh default reader it cannot happen - the reader reports it)
                if depth == 0 {
                    break;
                }
                depth -= 1;
            }
            Ok(Event::Start(e)) => {
                if let Some(v) = tag_check(&e) {
                    return v;
                }
                elements += 1;
                depth += 1;
            }
            Ok(Event::Empty(e)) => {
                if let Some(v) = tag_check(&e) {
                    return v;
                }
                elements += 1;
            }
            Ok(Event::Text(t)) => {
                let b = t.into_inner();
                if std::str::from_utf8(&b).is_err() {
                    return Verdict::Utf8 { bytes: b.to_vec(), what: "text" };
                }
            }
            Ok(Event::CData(t)) => {
                let b = t.into_inner();
                if std::str::from_utf8(&b).is_err() {
                    return Verdict::Utf8 { bytes: b.to_vec(), what: "cdata" };
                }
            }
            Ok(_) => {}
        }
        buf.clear();
    }
    if initial && elements == 0 {
        return Verdict::NoRoot;
    }
    Verdict::Ok { elements }
}

/// structure of a document: names, attribute names in order, text flag, child elements in order
#[derive(Debug, Clone, PartialEq)]
pub struct SNode {
    pub name: String,
    pub attrs: Vec<String>,
    pub text: bool,
    pub kids: Vec<SNode>,
}

pub fn structure_of(e: &Elem) -> SNode {
    SNode {
        name: e.name.clone(),
        attrs: e.attrs.iter().map(|a| a.name.clone()).collect(),
        text: e.kids.iter().any(|k| matches!(k, Node::Text(_) | Node::CData(_))),
        kids: e.elems().map(structure_of).collect(),
    }
}

pub fn structure_from_events(bytes: &[u8]) -> Result<SNode, String> {
    structure_from_events_opt(bytes, false)
}

/// `allow_open`: elements still open when the input ends are taken as they stand
pub fn structure_from_events_opt(bytes: &[u8], allow_open: bool) -> Result<SNode, String> {
    let mut reader = Reader::from_reader(bytes);
    let mut buf = Vec::new();
    let mut stack: Vec<SNode> = vec![SNode { name: "#doc".into(), attrs: vec![], text: false, kids: vec![] }];
    fn open(e: &BytesStart<'_>) -> Result<SNode, String> {
        let name = String::from_utf8(e.name().as_ref().to_vec()).map_err(|e| e.to_string())?;
        let mut attrs = Vec::new();
        for a in e.attributes() {
            let a = a.map_err(|e| format!("{e:?}"))?;
            attrs.push(String::from_utf8(a.key.as_ref().to_vec()).map_err(|e| e.to_string())?);
        }
        Ok(SNode { name, attrs, text: false, kids: vec![] })
    }
    loop {
        match reader.read_event_into(&mut buf) {
            Err(e) => return Err(format!("reader error at {}: {e:?}", reader.buffer_position())),
            Ok(Event::Eof) => break,
            Ok(Event::Start(e)) => stack.push(open(&e)?),
            Ok(Event::Empty(e)) => {
                let n = open(&e)?;
                stack.last_mut().unwrap().kids.push(n);
            }
            Ok(Event::End(_)) => {
                let n = stack.pop().ok_or("unbalanced")?;
                stack.last_mut().ok_or("unbalanced end")?.kids.push(n);
            }
            Ok(Event::Text(_)) | Ok(Event::CData(_)) => stack.last_mut().unwrap().text = true,
            Ok(_) => {}
        }
        buf.clear();
    }
    while allow_open && stack.len() > 1 {
        let n = stack.pop().unwrap();
        stack.last_mut().unwrap().kids.push(n);
    }
    if stack.len() != 1 {
        return Err("unclosed elements at EOF".into());
    }
    let doc = stack.pop().unwrap();
    if doc.kids.len() != 1 {
        return Err(format!("{} top-level elements", doc.kids.len()));
    }
    Ok(doc.kids.into_iter().next().unwrap())
}
