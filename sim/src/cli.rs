//! Seam S4: the OS under the CLI. One CLI run = the real release binary executed in a private sandbox
//! directory with a generated file-system state, argv and one fault plan for the LD_PRELOAD shim.
//! `(sandbox state, argv, plan)` determines the child's behaviour: it is single-threaded, reads no clock,
//! and its only entropy (the RandomState keys) is part of the plan.

use std::os::unix::fs::MetadataExt;
use std::path::{Path, PathBuf};
use std::process::{Command, Stdio};
use std::time::{Duration, Instant};

use crate::json::{bytes_j, j_bytes, J};

#[derive(Clone, Debug, PartialEq)]
pub enum InState {
    Present(Vec<u8>),
    Missing,
    Directory,
    /// a named pipe: the bytes arrive once, from a writer that closes afterwards (a read-once input)
    Fifo(Vec<u8>),
}

extern "C" {
    fn mkfifo(path: *const std::ffi::c_char, mode: u32) -> i32;
    fn posix_openpt(flags: i32) -> i32;
    fn grantpt(fd: i32) -> i32;
    fn unlockpt(fd: i32) -> i32;
    fn ptsname_r(fd: i32, buf: *mut std::ffi::c_char, len: usize) -> i32;
}

/// a pseudo-terminal pair: (master, slave); None where the sandbox has no pty support
fn open_pty() -> Option<(std::fs::File, std::fs::File)> {
    use std::os::unix::fs::OpenOptionsExt;
    use std::os::unix::io::FromRawFd;
    const O_RDWR: i32 = 2;
    const O_NOCTTY: i32 = 0o400;
    unsafe {
        let m = posix_openpt(O_RDWR | O_NOCTTY);
        if m < 0 {
            return None;
        }
        let master = std::fs::File::from_raw_fd(m);
        if grantpt(m) != 0 || unlockpt(m) != 0 {
            return None;
        }
        let mut buf = [0 as std::ffi::c_char; 128];
        if ptsname_r(m, buf.as_mut_ptr(), buf.len()) != 0 {
            return None;
        }
        let name = std::ffi::CStr::from_ptr(buf.as_ptr()).to_string_lossy().to_string();
        let slave = std::fs::OpenOptions::new().read(true).write(true).custom_flags(O_NOCTTY).open(name).ok()?;
        Some((master, slave))
    }
}

impl CliCase {
    /// In one world out of sixteen the program's stderr is a terminal (a pseudo-terminal the harness reads), not a
    /// file: `is_terminal()` is an input like any other. Derived from the case's entropy, so it replays.
    pub fn stderr_is_terminal(&self) -> bool {
        self.entropy % 16 == 3
    }
}

#[derive(Clone, Debug, PartialEq)]
pub enum OutState {
    /// no output argument: print to stdout
    Stdout,
    /// named, does not exist yet
    New,
    /// named, exists with this content
    Existing(Vec<u8>),
    /// named, inside a directory that does not exist
    InMissingDir,
    /// named, but is a directory
    IsDirectory,
    /// named, exists and already holds what this run is expected to write, give or take trailing white space:
    /// `tail` is appended to (or, when empty, the final newline is cut from) the expected text. Resolved when
    /// the case is executed; falls back to unrelated content when the input is at fault.
    ExistingLikeExpected(String),
    /// named: the character device /dev/null (open and write succeed, nothing is stored)
    DevNull,
    /// named, exists, and its permission bits say read-only (0444); whether it can be written is the kernel's decision
    /// (it can, for the super-user and with CAP_DAC_OVERRIDE, which is what this sandbox runs as)
    ExistingReadOnly(Vec<u8>),
    /// named: a symbolic link whose target does not exist yet (in an existing directory); creating the output creates the target
    DanglingSymlink,
    /// the output argument is the input path itself (convert in place): the document is read completely before the
    /// output is created, so this works; only drawn with a present, regular input file
    SameAsInput,
    /// named: a symbolic link to the input file
    SymlinkToInput,
    /// named, exists and holds the rendering of the same input under the *other* sort option (same length, other
    /// line order): what an earlier run with another --sort left behind. Resolved when the case is executed.
    ExistingOtherSort,
}

#[derive(Clone, Debug, PartialEq)]
pub struct CliCase {
    pub input_name: String,
    pub input: InState,
    pub output_name: String,
    pub output: OutState,
    /// option arguments exactly as passed (before the positionals)
    pub opt_args: Vec<String>,
    /// their meaning, used to compute the expected rendering
    pub serde_xml_rs: bool,
    pub by_name: bool,
    pub derive: Option<String>,
    /// XSG_FAULT_PLAN without the getrandom entry
    pub plan: Vec<String>,
    pub entropy: u128,
    /// run a second process with this entropy and demand identical results (C05 across processes)
    pub twin_entropy: Option<u128>,
    /// bounded sweep: ignore `plan` and run once per single fault of `single_fault_plans()`
    pub sweep: bool,
}

/// every single fault the shim can inject at the first few calls of each kind (the CLI makes at most
/// 3 opens, a handful of reads and writes): the space a sweep case enumerates completely
pub fn single_fault_plans() -> Vec<String> {
    let mut v = Vec::new();
    for n in 0..3 {
        for e in [4, 5, 13, 24, 2, 28, 30] {
            v.push(format!("open:{n}:{e}"));
        }
    }
    for n in 0..4 {
        for e in [4, 5, 11, 9] {
            v.push(format!("read:{n}:{e}"));
        }
        for k in [1, 3] {
            v.push(format!("read:{n}:short={k}"));
        }
    }
    for n in 0..3 {
        for e in [4, 28, 5, 32] {
            v.push(format!("write:{n}:{e}"));
        }
        for k in [1, 17] {
            v.push(format!("write:{n}:short={k}"));
        }
    }
    for e in [5, 38, 13] {
        v.push(format!("statx:*:{e}"));
    }
    // two faults in a row: part of the text is accepted, then the next write fails (a pipe that fills up, a quota
    // reached): whatever the program does next, it must not emit the accepted part a second time and report success
    for n in 0..2 {
        for e in [4, 11, 28] {
            v.push(format!("write:{n}:short=17;write:{}:{e}", n + 1));
        }
    }
    v
}

/// Is LD_PRELOAD taking? `--help` makes any build of the program write to stdout, which the shim reports.
pub fn shim_canary(sandbox: &Path) -> bool {
    let _ = std::fs::create_dir_all(sandbox);
    let rp = sandbox.join(".shim-canary");
    let _ = std::fs::remove_file(&rp);
    let st = Command::new(bin_path())
        .arg("--help")
        .env_clear()
        .env("LD_PRELOAD", shim_path())
        .env("XSG_SHIM_REPORT", &rp)
        .stdin(Stdio::null())
        .stdout(Stdio::null())
        .stderr(Stdio::null())
        .status();
    st.is_ok() && std::fs::read(&rp).map(|b| !b.is_empty()).unwrap_or(false)
}

impl CliCase {
    pub fn to_j(&self) -> J {
        let mut o = J::obj();
        o.put("input_name", J::s(&self.input_name));
        o.put(
            "input",
            match &self.input {
                InState::Present(b) => J::obj().set("present", bytes_j(b)),
                InState::Fifo(b) => J::obj().set("fifo", bytes_j(b)),
                InState::Missing => J::s("missing"),
                InState::Directory => J::s("directory"),
            },
        );
        o.put("output_name", J::s(&self.output_name));
        o.put(
            "output",
            match &self.output {
                OutState::Stdout => J::s("stdout"),
                OutState::New => J::s("new"),
                OutState::Existing(b) => J::obj().set("existing", bytes_j(b)),
                OutState::InMissingDir => J::s("in_missing_dir"),
                OutState::IsDirectory => J::s("is_directory"),
                OutState::ExistingLikeExpected(t) => J::obj().set("existing_like_expected_plus", J::s(t)),
                OutState::DevNull => J::s("dev_null"),
                OutState::DanglingSymlink => J::s("dangling_symlink"),
                OutState::ExistingReadOnly(b) => J::obj().set("existing_read_only", bytes_j(b)),
                OutState::ExistingOtherSort => J::s("existing_other_sort"),
                OutState::SameAsInput => J::s("same_as_input"),
                OutState::SymlinkToInput => J::s("symlink_to_input"),
            },
        );
        o.put("opt_args", J::Arr(self.opt_args.iter().map(J::s).collect()));
        o.put("parser", J::s(if self.serde_xml_rs { "serde-xml-rs" } else { "quick-xml-de" }));
        o.put("sort", J::s(if self.by_name { "name" } else { "unsorted" }));
        o.put("derive", self.derive.as_ref().map(J::s).unwrap_or(J::Null));
        o.put("fault_plan", J::Arr(self.plan.iter().map(J::s).collect()));
        o.put("entropy", J::s(format!("{:032x}", self.entropy)));
        if let Some(t) = self.twin_entropy {
            o.put("twin_entropy", J::s(format!("{:032x}", t)));
        }
        if self.sweep {
            o.put("single_fault_sweep", J::Bool(true));
        }
        if self.stderr_is_terminal() {
            // informational: derived from `entropy`
            o.put("stderr_is_a_terminal", J::Bool(true));
        }
        o
    }
    pub fn from_j(j: &J) -> Result<CliCase, String> {
        let input = match j.get("input") {
            Some(J::Str(s)) if s == "missing" => InState::Missing,
            Some(J::Str(s)) if s == "directory" => InState::Directory,
            Some(o) if o.get("fifo").is_some() => InState::Fifo(j_bytes(o.get("fifo").ok_or("input")?)?),
            Some(o) => InState::Present(j_bytes(o.get("present").ok_or("input")?)?),
            None => return Err("input".into()),
        };
        let output = match j.get("output") {
            Some(J::Str(s)) if s == "stdout" => OutState::Stdout,
            Some(J::Str(s)) if s == "new" => OutState::New,
            Some(J::Str(s)) if s == "in_missing_dir" => OutState::InMissingDir,
            Some(J::Str(s)) if s == "is_directory" => OutState::IsDirectory,
            Some(J::Str(s)) if s == "dev_null" => OutState::DevNull,
            Some(J::Str(s)) if s == "dangling_symlink" => OutState::DanglingSymlink,
            Some(J::Str(s)) if s == "existing_other_sort" => OutState::ExistingOtherSort,
            Some(J::Str(s)) if s == "same_as_input" => OutState::SameAsInput,
            Some(J::Str(s)) if s == "symlink_to_input" => OutState::SymlinkToInput,
            Some(o) if o.get("existing_read_only").is_some() => OutState::ExistingReadOnly(j_bytes(o.get("existing_read_only").ok_or("output")?)?),
            Some(o) if o.get("existing_like_expected_plus").is_some() => OutState::ExistingLikeExpected(o.str_of("existing_like_expected_plus")?),
            Some(o) => OutState::Existing(j_bytes(o.get("existing").ok_or("output")?)?),
            None => return Err("output".into()),
        };
        let mut opt_args = Vec::new();
        for a in j.arr_of("opt_args")? {
            opt_args.push(a.as_str()?.to_string());
        }
        let mut plan = Vec::new();
        for a in j.arr_of("fault_plan")? {
            plan.push(a.as_str()?.to_string());
        }
        Ok(CliCase {
            input_name: j.str_of("input_name")?,
            input,
            output_name: j.str_of("output_name")?,
            output,
            opt_args,
            serde_xml_rs: j.str_of("parser")? == "serde-xml-rs",
            by_name: j.str_of("sort")? == "name",
            derive: j.str_of("derive").ok(),
            plan,
            entropy: u128::from_str_radix(&j.str_of("entropy")?, 16).map_err(|e| e.to_string())?,
            twin_entropy: match j.str_of("twin_entropy") {
                Ok(s) => Some(u128::from_str_radix(&s, 16).map_err(|e| e.to_string())?),
                Err(_) => None,
            },
            sweep: matches!(j.get("single_fault_sweep"), Some(J::Bool(true))),
        })
    }
}

#[derive(Clone, Debug, Default)]
pub struct Fired {
    pub input_open_err: Vec<i32>,
    pub output_open_err: Vec<i32>,
    pub read_err: Vec<i32>,
    pub read_short: u64,
    pub out_write_err: Vec<i32>,
    pub out_write_short: u64,
    pub stdout_write_err: Vec<i32>,
    pub stderr_write_err: Vec<i32>,
    pub std_write_short: u64,
    pub statx_err: u64,
    pub getrandom_seeded: u64,
    pub calls: u64,
    pub opens_of_output: u64,
    /// environment variables the program asked for
    pub getenv: Vec<String>,
}

#[derive(Clone, Debug)]
pub struct FileSnap {
    pub exists: bool,
    pub is_dir: bool,
    pub bytes: Vec<u8>,
    pub ino: u64,
    pub mtime_ns: i128,
}

pub fn snap(p: &Path) -> FileSnap {
    match std::fs::symlink_metadata(p) {
        Ok(m) => FileSnap {
            exists: true,
            is_dir: m.is_dir(),
            bytes: if m.is_file() { std::fs::read(p).unwrap_or_default() } else { vec![] },
            ino: m.ino(),
            mtime_ns: m.mtime() as i128 * 1_000_000_000 + m.mtime_nsec() as i128,
        },
        Err(_) => FileSnap { exists: false, is_dir: false, bytes: vec![], ino: 0, mtime_ns: 0 },
    }
}

#[derive(Clone, Debug)]
pub struct CliOut {
    pub exit: Option<i32>,
    pub signal: bool,
    pub timed_out: bool,
    pub stdout: Vec<u8>,
    pub stderr: Vec<u8>,
    pub before: FileSnap,
    pub after: FileSnap,
    pub fired: Fired,
    pub report: String,
    /// stderr of this run was a pseudo-terminal
    pub stderr_was_terminal: bool,
}

pub fn bin_path() -> PathBuf {
    PathBuf::from(format!("{}/target/repo/release/xml_schema_generator", crate::driver::verif_dir()))
}
pub fn shim_path() -> PathBuf {
    PathBuf::from(format!("{}/target/libxsg_shim.so", crate::driver::verif_dir()))
}

fn parse_report(rep: &str, case: &CliCase) -> Fired {
    let mut f = Fired::default();
    let mut last_open_is_output = false;
    let out_name = if matches!(case.output, OutState::DevNull) { "/dev/null".to_string() } else { case.output_name.clone() };
    let out_fd_open = |l: &str| l.ends_with(&format!(" path={out_name}")) && !matches!(case.output, OutState::Stdout);
    for l in rep.lines() {
        if l.starts_with("call ") {
            f.calls += 1;
        }
        if l.starts_with("call open ") {
            last_open_is_output = out_fd_open(l);
            if last_open_is_output {
                f.opens_of_output += 1;
            }
        } else if let Some(r) = l.strip_prefix("fired open errno=") {
            let e: i32 = r.trim().parse().unwrap_or(0);
            if last_open_is_output {
                f.output_open_err.push(e);
            } else {
                f.input_open_err.push(e);
            }
        } else if let Some(r) = l.strip_prefix("fired read errno=") {
            f.read_err.push(r.trim().parse().unwrap_or(0));
        } else if l.starts_with("fired read short=") {
            f.read_short += 1;
        } else if let Some(r) = l.strip_prefix("fired write errno=") {
            let mut it = r.split(" fd=");
            let e: i32 = it.next().unwrap_or("0").trim().parse().unwrap_or(0);
            let fd: i32 = it.next().unwrap_or("0").trim().parse().unwrap_or(0);
            match fd {
                1 => f.stdout_write_err.push(e),
                2 => f.stderr_write_err.push(e),
                _ => f.out_write_err.push(e),
            }
        } else if l.starts_with("fired write short=") {
            if l.ends_with("fd=1") || l.ends_with("fd=2") {
                f.std_write_short += 1;
            } else {
                f.out_write_short += 1;
            }
        } else if l.starts_with("fired statx") {
            f.statx_err += 1;
        } else if l.starts_with("fired getrandom") {
            f.getrandom_seeded += 1;
        } else if let Some(n) = l.strip_prefix("getenv ") {
            if !f.getenv.iter().any(|x| x == n) {
                f.getenv.push(n.to_string());
            }
        }
    }
    f
}

/// Build the sandbox, run the binary under the shim, observe everything, remove the sandbox.
pub fn run_cli(case: &CliCase, entropy: u128, sandbox: &Path) -> Result<CliOut, String> {
    run_cli_with(case, entropy, sandbox, None)
}

/// `expected`: the text a successful run is expected to write (needed to set up `ExistingLikeExpected`)
pub fn run_cli_with(case: &CliCase, entropy: u128, sandbox: &Path, expected: Option<&str>) -> Result<CliOut, String> {
    run_cli_env(case, entropy, sandbox, expected, &[])
}

/// `extra_env`: variables set in addition (used to re-run a world with the variables the program was seen to read)
pub fn run_cli_env(case: &CliCase, entropy: u128, sandbox: &Path, expected: Option<&str>, extra_env: &[(String, String)]) -> Result<CliOut, String> {
    let _ = std::fs::remove_dir_all(sandbox);
    std::fs::create_dir_all(sandbox).map_err(|e| format!("{}: {e}", sandbox.display()))?;
    let inp = sandbox.join(&case.input_name);
    let mut fifo_writer: Option<std::thread::JoinHandle<()>> = None;
    match &case.input {
        InState::Present(b) => std::fs::write(&inp, b).map_err(|e| e.to_string())?,
        InState::Fifo(b) => {
            let c = std::ffi::CString::new(inp.to_string_lossy().as_bytes()).map_err(|e| e.to_string())?;
            if unsafe { mkfifo(c.as_ptr(), 0o644) } != 0 {
                return Err(format!("mkfifo {}: {}", inp.display(), std::io::Error::last_os_error()));
            }
            // the writer: opens (blocks until the program opens the pipe for reading), writes everything, closes.
            // Opened read+write first so that this thread can never block forever if the program never reads.
            let data = b.clone();
            let path = inp.clone();
            fifo_writer = Some(std::thread::spawn(move || {
                use std::io::Write;
                if let Ok(mut f) = std::fs::OpenOptions::new().write(true).open(&path) {
                    let _ = f.write_all(&data);
                }
            }));
        }
        InState::Missing => {
            if case.entropy % 2 == 1 && !case.input_name.contains('/') {
                // the file is missing, but look-alikes sit next to it (a program that "helpfully" tries other spellings
                // converts the wrong file)
                for sfx in [".xml", ".bak", "~", ".XML"] {
                    let _ = std::fs::write(sandbox.join(format!("{}{sfx}", case.input_name)), "<decoy><a/></decoy>");
                }
            }
        }
        InState::Directory => {
            std::fs::create_dir_all(&inp).map_err(|e| e.to_string())?;
            if case.entropy % 2 == 1 {
                // ... and not an empty one: it holds documents (a program that starts accepting directories changes
                // what "the input is a directory" means)
                for (n, d) in [("b.xml", "<r><b/><a/></r>"), ("a.xml", "<r><a/><c/></r>"), ("c.xml", "<r><c/><b/></r>")] {
                    std::fs::write(inp.join(n), d).map_err(|e| e.to_string())?;
                }
            }
        }
    }
    let outp = match case.output {
        OutState::DevNull => PathBuf::from("/dev/null"),
        OutState::SameAsInput => inp.clone(),
        _ => sandbox.join(&case.output_name),
    };
    match &case.output {
        OutState::Stdout | OutState::New | OutState::InMissingDir | OutState::DevNull | OutState::SameAsInput => {}
        OutState::SymlinkToInput => {
            std::os::unix::fs::symlink(&case.input_name, &outp).map_err(|e| e.to_string())?;
        }
        OutState::DanglingSymlink => {
            std::os::unix::fs::symlink("link-target-that-does-not-exist-yet.rs", &outp).map_err(|e| e.to_string())?;
        }
        OutState::ExistingOtherSort => {
            // the caller (props::c12) replaces this state by Existing(<other rendering>) before running; alone it is just new
        }
        OutState::Existing(b) => std::fs::write(&outp, b).map_err(|e| e.to_string())?,
        OutState::ExistingReadOnly(b) => {
            use std::os::unix::fs::PermissionsExt;
            std::fs::write(&outp, b).map_err(|e| e.to_string())?;
            std::fs::set_permissions(&outp, std::fs::Permissions::from_mode(0o444)).map_err(|e| e.to_string())?;
        }
        OutState::ExistingLikeExpected(tail) => {
            let content = match expected {
                Some(e) if tail.is_empty() => e.trim_end_matches('\n').to_string(),
                Some(e) => format!("{e}{tail}"),
                None => "// unrelated older content\n".to_string(),
            };
            std::fs::write(&outp, content).map_err(|e| e.to_string())?
        }
        OutState::IsDirectory => std::fs::create_dir_all(&outp).map_err(|e| e.to_string())?,
    }
    // File times are an input as well (make-style "is it up to date?" logic reads them) and the kernel's clock is
    // not under our control: pin them. Input: a fixed instant; a pre-existing output: one hour older, the same
    // instant, or one hour newer, chosen by the case's entropy.
    {
        use std::time::{Duration, SystemTime};
        let t0 = SystemTime::UNIX_EPOCH + Duration::from_secs(1_600_000_000);
        if let InState::Present(_) = &case.input {
            if let Ok(f) = std::fs::OpenOptions::new().write(true).open(&inp) {
                let _ = f.set_modified(t0);
            }
        }
        if matches!(case.output, OutState::Existing(_) | OutState::ExistingLikeExpected(_)) && outp.is_file() {
            let t = match case.entropy % 3 {
                0 => t0 - Duration::from_secs(3600),
                1 => t0,
                _ => t0 + Duration::from_secs(3600),
            };
            if let Ok(f) = std::fs::OpenOptions::new().write(true).open(&outp) {
                let _ = f.set_modified(t);
            }
        }
    }
    let mut before = snap(&outp);
    if matches!(case.output, OutState::SymlinkToInput) {
        // what counts is what the link leads to (before and after)
        if let Ok(b) = std::fs::read(&outp) {
            before.bytes = b;
            before.exists = true;
        }
    }
    let so = sandbox.join(".stdout");
    let se = sandbox.join(".stderr");
    let rp = sandbox.join(".shim-report");
    let mut plan = case.plan.join(";");
    if !plan.is_empty() {
        plan.push(';');
    }
    plan.push_str(&format!("getrandom:{}", crate::json::hex(&entropy.to_le_bytes())));
    let mut cmd = Command::new(bin_path());
    cmd.current_dir(sandbox);
    cmd.env_clear();
    if entropy != case.entropy {
        // the process twin also differs in its environment variables: none of them may reach the output
        for (k, v) in [
            ("RUST_LOG", "trace"),
            ("RUST_BACKTRACE", "1"),
            ("LANG", "tr_TR.UTF-8"),
            ("LC_ALL", "tr_TR.UTF-8"),
            ("TZ", "Asia/Tokyo"),
            ("COLUMNS", "20"),
            ("NO_COLOR", "1"),
            ("CLICOLOR_FORCE", "1"),
            ("TERM", "xterm-256color"),
            ("HOME", "/nonexistent"),
            ("TMPDIR", "/nonexistent"),
            ("USER", "somebody"),
            // a stale PWD is what every parent produces that changes the child's cwd without touching the environment
            ("PWD", "/"),
            ("OLDPWD", "/tmp"),
        ] {
            cmd.env(k, v);
        }
    }
    for (k, v) in extra_env {
        cmd.env(k, v);
    }
    cmd.env("LD_PRELOAD", shim_path());
    cmd.env("XSG_FAULT_PLAN", &plan);
    cmd.env("XSG_SHIM_REPORT", &rp);
    cmd.args(&case.opt_args);
    cmd.arg(&case.input_name);
    match case.output {
        OutState::Stdout => {}
        OutState::DevNull => {
            cmd.arg("/dev/null");
        }
        OutState::SameAsInput => {
            cmd.arg(&case.input_name);
        }
        _ => {
            cmd.arg(&case.output_name);
        }
    }
    cmd.stdin(Stdio::null());
    // stdout is a regular file that already holds a line and is opened for appending (`prog >> log`): what the program
    // prints must come after it
    const STDOUT_MARK: &[u8] = b"## earlier content of the stdout file\n";
    std::fs::write(&so, STDOUT_MARK).map_err(|e| e.to_string())?;
    cmd.stdout(std::fs::OpenOptions::new().append(true).open(&so).map_err(|e| e.to_string())?);
    // stderr: a file, or (one world in sixteen) a pseudo-terminal whose master side a thread of the harness drains
    let mut pty_reader: Option<std::thread::JoinHandle<Vec<u8>>> = None;
    let mut stderr_was_terminal = false;
    match if case.stderr_is_terminal() { open_pty() } else { None } {
        Some((master, slave)) => {
            stderr_was_terminal = true;
            cmd.stderr(slave);
            pty_reader = Some(std::thread::spawn(move || {
                use std::io::Read;
                let mut master = master;
                let mut all = Vec::new();
                let mut buf = [0u8; 4096];
                // read(2) on the master fails with EIO once the last descriptor of the slave side is closed
                while let Ok(n) = master.read(&mut buf) {
                    if n == 0 {
                        break;
                    }
                    all.extend_from_slice(&buf[..n]);
                }
                all
            }));
        }
        None => {
            cmd.stderr(std::fs::File::create(&se).map_err(|e| e.to_string())?);
        }
    }
    let mut child = cmd.spawn().map_err(|e| format!("spawn {}: {e}", bin_path().display()))?;
    // the Command holds the harness' copy of the slave side: release it, or the master never sees the hang-up
    drop(cmd);
    let t0 = Instant::now();
    let mut timed_out = false;
    let status = loop {
        match child.try_wait().map_err(|e| e.to_string())? {
            Some(s) => break Some(s),
            None => {
                if t0.elapsed() > Duration::from_secs(60) {
                    // watchdog: only there to turn a hang into a report
                    let _ = child.kill();
                    let _ = child.wait();
                    timed_out = true;
                    break None;
                }
                std::thread::sleep(Duration::from_micros(200));
            }
        }
    };
    if let Some(w) = fifo_writer.take() {
        // The program is gone. The writer may still be blocked in open(2) (the program never opened the pipe) or in
        // write(2) (the program stopped reading; or it never read and the pipe is full). Keep giving it a reader that
        // takes what is there and hangs up - open(2) then returns, write(2) then fails with EPIPE - until it is done.
        use std::io::Read;
        use std::os::unix::fs::OpenOptionsExt;
        let t1 = Instant::now();
        while !w.is_finished() && t1.elapsed() < Duration::from_secs(30) {
            if let Ok(mut f) = std::fs::OpenOptions::new().read(true).custom_flags(0o4000).open(&inp) {
                let mut sink = [0u8; 65536];
                let _ = f.read(&mut sink);
            }
            std::thread::sleep(Duration::from_micros(200));
        }
        if w.is_finished() {
            let _ = w.join();
        } else {
            return Err("the named-pipe writer of the harness did not finish".into());
        }
    }
    let report = std::fs::read_to_string(&rp).unwrap_or_default();
    let out = CliOut {
        exit: status.and_then(|s| s.code()),
        signal: status.map(|s| s.code().is_none()).unwrap_or(false),
        timed_out,
        stdout: {
            let all = std::fs::read(&so).unwrap_or_default();
            match all.strip_prefix(STDOUT_MARK) {
                Some(rest) => rest.to_vec(),
                None => {
                    let mut v = b"<<the earlier content of the stdout file was destroyed>>".to_vec();
                    v.extend_from_slice(&all);
                    v
                }
            }
        },
        stderr: match pty_reader {
            // the terminal's line discipline turns "\n" into "\r\n"
            Some(h) => {
                let raw = h.join().unwrap_or_default();
                let mut v = Vec::with_capacity(raw.len());
                for (i, b) in raw.iter().enumerate() {
                    if *b == b'\r' && raw.get(i + 1) == Some(&b'\n') {
                        continue;
                    }
                    v.push(*b);
                }
                v
            }
            None => std::fs::read(&se).unwrap_or_default(),
        },
        before,
        after: {
            let mut a = snap(&outp);
            if matches!(case.output, OutState::DanglingSymlink | OutState::SymlinkToInput) {
                // what counts is what the link leads to afterwards
                if let Ok(b) = std::fs::read(&outp) {
                    a.bytes = b;
                    a.exists = true;
                }
            }
            a
        },
        fired: parse_report(&report, case),
        report,
        stderr_was_terminal,
    };
    let _ = std::fs::remove_dir_all(sandbox);
    Ok(out)
}
