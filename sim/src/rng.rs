//! The only source of randomness in the simulator: xoshiro256** seeded through splitmix64.
//! Everything a run decides is drawn from one `Rng` created from `mix(VERIF_SEED, property, run)`.

#[derive(Clone)]
pub struct Rng {
    s: [u64; 4],
}

fn splitmix(x: &mut u64) -> u64 {
    *x = x.wrapping_add(0x9E37_79B9_7F4A_7C15);
    let mut z = *x;
    z = (z ^ (z >> 30)).wrapping_mul(0xBF58_476D_1CE4_E5B9);
    z = (z ^ (z >> 27)).wrapping_mul(0x94D0_49BB_1331_11EB);
    z ^ (z >> 31)
}

/// mix several integers into one seed (order-sensitive)
pub fn mix(parts: &[u64]) -> u64 {
    let mut h: u64 = 0x243F_6A88_85A3_08D3;
    for p in parts {
        let mut x = h ^ p.wrapping_mul(0x9E37_79B9_7F4A_7C15);
        h = splitmix(&mut x).rotate_left(23) ^ *p;
    }
    let mut x = h;
    splitmix(&mut x)
}

pub fn hash_str(s: &str) -> u64 {
    fnv1a(s.as_bytes())
}

pub fn fnv1a(b: &[u8]) -> u64 {
    let mut h: u64 = 0xcbf2_9ce4_8422_2325;
    for x in b {
        h ^= *x as u64;
        h = h.wrapping_mul(0x0000_0100_0000_01B3);
    }
    h
}

/// incremental FNV-1a used for trace hashes and fingerprints
#[derive(Clone)]
pub struct Fnv(pub u64);
impl Fnv {
    pub fn new() -> Self {
        Fnv(0xcbf2_9ce4_8422_2325)
    }
    pub fn bytes(&mut self, b: &[u8]) {
        for x in b {
            self.0 ^= *x as u64;
            self.0 = self.0.wrapping_mul(0x0000_0100_0000_01B3);
        }
        // length terminator so that ("ab","c") != ("a","bc")
        self.0 ^= 0xff;
        self.0 = self.0.wrapping_mul(0x0000_0100_0000_01B3);
    }
    pub fn str(&mut self, s: &str) {
        self.bytes(s.as_bytes())
    }
    pub fn u64(&mut self, v: u64) {
        self.bytes(&v.to_le_bytes())
    }
}

impl Rng {
    pub fn new(seed: u64) -> Self {
        let mut x = seed;
        let s = [
            splitmix(&mut x),
            splitmix(&mut x),
            splitmix(&mut x),
            splitmix(&mut x),
        ];
        Rng { s }
    }
    pub fn next_u64(&mut self) -> u64 {
        let r = self.s[1].wrapping_mul(5).rotate_left(7).wrapping_mul(9);
        let t = self.s[1] << 17;
        self.s[2] ^= self.s[0];
        self.s[3] ^= self.s[1];
        self.s[1] ^= self.s[2];
        self.s[0] ^= self.s[3];
        self.s[2] ^= t;
        self.s[3] = self.s[3].rotate_left(45);
        r
    }
    pub fn u128(&mut self) -> u128 {
        ((self.next_u64() as u128) << 64) | self.next_u64() as u128
    }
    /// uniform in 0..n (n>0)
    pub fn below(&mut self, n: usize) -> usize {
        debug_assert!(n > 0);
        (self.next_u64() % (n as u64)) as usize
    }
    /// uniform in lo..=hi
    pub fn range(&mut self, lo: usize, hi: usize) -> usize {
        lo + self.below(hi - lo + 1)
    }
    /// true with probability num/den
    pub fn chance(&mut self, num: u32, den: u32) -> bool {
        (self.next_u64() % den as u64) < num as u64
    }
    /// true with probability p/100
    pub fn pct(&mut self, p: u32) -> bool {
        self.chance(p, 100)
    }
    pub fn pick<'a, T>(&mut self, v: &'a [T]) -> &'a T {
        &v[self.below(v.len())]
    }
    pub fn shuffle<T>(&mut self, v: &mut [T]) {
        for i in (1..v.len()).rev() {
            let j = self.below(i + 1);
            v.swap(i, j);
        }
    }
    pub fn fork(&mut self) -> Rng {
        Rng::new(self.next_u64())
    }
}
