//! Observation of a schema tree through the public API only, plus a strict parser for the rendered
//! source. No struct or field identifier is relied upon: fields are classified by their serde name.

use xml_schema_generator::{Element, Necessity, Options, SortBy};

#[derive(Clone, Debug, PartialEq, Eq, PartialOrd, Ord)]
pub enum Kind {
    Attr,
    Text,
    Child,
}

#[derive(Clone, Debug, PartialEq, Eq, PartialOrd, Ord)]
pub struct Field {
    pub kind: Kind,
    /// the name serde binds the field to (rename if present, else the identifier)
    pub serde: String,
    pub ident: String,
    pub opt: bool,
    pub vec: bool,
    /// inner type as written: `String` or a struct name
    pub ty: String,
    pub renamed: bool,
}

#[derive(Clone, Debug, PartialEq)]
pub struct Block {
    pub name: String,
    pub derive: Option<String>,
    pub fields: Vec<Field>,
    /// the block's lines verbatim (for the "nothing but order" comparison)
    pub lines: Vec<String>,
}

impl Block {
    /// field descriptor with struct names and identifiers erased
    pub fn erased(&self) -> Vec<(Kind, String, bool, bool, bool)> {
        self.fields.iter().map(|f| (f.kind.clone(), f.serde.clone(), f.opt, f.vec, f.ty == "String" && !type_ambiguous(&f.serde))).collect()
    }
}

/// a struct named after an element called `string` / `String` / … is indistinguishable from the `String`
/// type in the rendered text; for such names the String-typing of a field is not compared
pub fn type_ambiguous(name: &str) -> bool {
    let n: String = name.chars().filter(|c| c.is_alphanumeric()).collect::<String>().to_lowercase();
    n == "string"
}

pub fn qx(sort: SortBy, derive: &str) -> Options {
    let mut o = Options::quick_xml_de().derive(derive);
    o.sort = sort;
    o
}

pub fn sxr(sort: SortBy, derive: &str) -> Options {
    let mut o = Options::serde_xml_rs().derive(derive);
    o.sort = sort;
    o
}

fn parse_type(t: &str) -> Option<(bool, bool, String)> {
    let (opt, rest) = match t.strip_prefix("Option<").and_then(|r| r.strip_suffix('>')) {
        Some(r) => (true, r),
        None => (false, t),
    };
    let (vec, rest) = match rest.strip_prefix("Vec<").and_then(|r| r.strip_suffix('>')) {
        Some(r) => (true, r),
        None => (false, rest),
    };
    // an empty type name is what the renderer emits for an element whose name has no alphanumeric character
    // (`<__/>`): not a legal Rust item, but that is C04's subject, not claimed here; the observation is name-free
    if rest.contains(['<', '>', ' ', ',']) {
        return None;
    }
    Some((opt, vec, rest.to_string()))
}

/// Parse rendered source (quick-xml preset: attributes are bound to `@name`, text to `$text`).
/// The grammar is exactly what the renderer is documented to emit; anything else is an error.
pub fn parse_blocks(src: &str) -> Result<Vec<Block>, String> {
    parse_blocks_with(src, "$text")
}

/// the same for a rendering whose caller set `Options::text_identifier` itself
pub fn parse_blocks_with(src: &str, text_id: &str) -> Result<Vec<Block>, String> {
    let mut blocks = Vec::new();
    let mut lines = src.split('\n').peekable();
    loop {
        let Some(mut line) = lines.next() else { break };
        if line.is_empty() && lines.peek().is_none() {
            break;
        }
        let mut raw = Vec::new();
        let mut derive = None;
        loop {
            if let Some(d) = line.strip_prefix("#[derive(").and_then(|r| r.strip_suffix(")]")) {
                derive = Some(d.to_string());
            } else if !((line.starts_with("#[") && line.ends_with(']')) || line.starts_with("//")) {
                break;
            }
            raw.push(line.to_string());
            line = lines.next().ok_or("attribute line at end of output")?;
        }
        let name = line
            .strip_prefix("pub struct ")
            .and_then(|r| r.strip_suffix(" {"))
            .ok_or_else(|| format!("expected `pub struct NAME {{`, found {line:?}"))?;
        raw.push(line.to_string());
        let mut fields = Vec::new();
        let mut rename: Option<String> = None;
        loop {
            let l = lines.next().ok_or("unterminated struct")?;
            raw.push(l.to_string());
            if l == "}" {
                if rename.is_some() {
                    return Err("rename attribute without field".into());
                }
                break;
            }
            if let Some(r) = l.strip_prefix("    #[serde(rename = \"").and_then(|r| r.strip_suffix("\")]")) {
                if rename.is_some() {
                    return Err("two rename attributes".into());
                }
                rename = Some(r.to_string());
                continue;
            }
            let t = l.trim_start();
            if (t.starts_with("#[") && t.ends_with(']')) || t.starts_with("//") {
                // other attributes / comments a future renderer may add are not part of any claimed property
                continue;
            }
            let body = l
                .strip_prefix("    pub ")
                .and_then(|r| r.strip_suffix(','))
                .ok_or_else(|| format!("expected field line, found {l:?}"))?;
            let (ident, ty) = body.split_once(": ").ok_or_else(|| format!("bad field {l:?}"))?;
            let (opt, vec, inner) = parse_type(ty).ok_or_else(|| format!("bad type {ty:?}"))?;
            let renamed = rename.is_some();
            let serde = rename.take().unwrap_or_else(|| ident.to_string());
            let kind = if renamed && serde == text_id {
                Kind::Text
            } else if renamed && serde.starts_with('@') {
                Kind::Attr
            } else {
                Kind::Child
            };
            fields.push(Field { kind, serde, ident: ident.to_string(), opt, vec, ty: inner, renamed });
        }
        match lines.next() {
            Some("") | None => {}
            other => return Err(format!("expected blank line after struct, found {other:?}")),
        }
        blocks.push(Block { name: name.to_string(), derive, fields, lines: raw });
    }
    Ok(blocks)
}

/// One schema position as seen through the public API, plus the struct block the renderer emits for it.
#[derive(Clone, Debug)]
pub struct Obs {
    pub name: String,
    pub mandatory: bool,
    pub standalone: bool,
    pub text: bool,
    /// first struct block of rendering this sub-tree alone (quick-xml preset, no derive)
    pub block: Block,
    pub kids: Vec<Obs>,
}

impl Obs {
    pub fn attrs(&self) -> Vec<&Field> {
        self.block.fields.iter().filter(|f| f.kind == Kind::Attr).collect()
    }
    pub fn string_typed(&self) -> bool {
        self.text && self.kids.is_empty() && self.attrs().is_empty()
    }
    pub fn kid(&self, name: &str) -> Option<&Obs> {
        self.kids.iter().find(|k| k.name == name)
    }
    pub fn positions(&self) -> usize {
        1 + self.kids.iter().map(|k| k.positions()).sum::<usize>()
    }
}

pub fn observe(el: &Element<String>, mandatory: bool, sort: SortBy) -> Result<Obs, String> {
    let opts = qx(sort, "");
    observe_with(el, mandatory, &opts)
}

fn observe_with(el: &Element<String>, mandatory: bool, opts: &Options) -> Result<Obs, String> {
    let src = el.to_serde_struct(opts);
    let blocks = parse_blocks(&src).map_err(|e| format!("rendering of <{}> does not parse: {e}\n{src}", el.name))?;
    let block = blocks.into_iter().next().ok_or_else(|| format!("rendering of <{}> has no struct", el.name))?;
    let mut kids = Vec::new();
    for c in el.children().iter() {
        let (m, inner) = match c {
            Necessity::Mandatory(e) => (true, e),
            Necessity::Optional(e) => (false, e),
        };
        kids.push(observe_with(inner, m, opts)?);
    }
    Ok(Obs { name: el.name.clone(), mandatory, standalone: el.standalone(), text: el.text.is_some(), block, kids })
}

/// everything the public API shows of a tree, as a string (part of the trace hash)
pub fn api_dump(el: &Element<String>, out: &mut String) {
    out.push('<');
    out.push_str(&el.name);
    out.push(if el.standalone() { '1' } else { '*' });
    if el.text.is_some() {
        out.push('t');
    }
    for c in el.children().iter() {
        out.push(match c {
            Necessity::Mandatory(_) => 'M',
            Necessity::Optional(_) => 'o',
        });
        api_dump(c.inner_t(), out);
    }
    out.push('>');
}
