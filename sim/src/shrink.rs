//! Minimisation of a failing session by deterministic delta passes. The predicate is "the same violation
//! class of the same property persists"; every accepted step keeps it true, so the result still fails.

use crate::dom::{Doc, Elem, Node};
use crate::session::{Input, Session};
use crate::simreader::Plan;

pub struct Budget {
    pub evals: usize,
    pub max: usize,
    /// wall-clock limit for minimisation (it only bounds how small the replay file gets, never a verdict)
    pub start: std::time::Instant,
    pub secs: u64,
}

fn try_accept(cur: &mut Session, cand: Session, fails: &mut dyn FnMut(&Session) -> bool, b: &mut Budget) -> bool {
    if b.evals >= b.max || cand == *cur {
        return false;
    }
    if b.start.elapsed().as_secs() >= b.secs {
        b.evals = b.max;
        return false;
    }
    b.evals += 1;
    if fails(&cand) {
        *cur = cand;
        true
    } else {
        false
    }
}

fn elem_paths(e: &Elem, cur: &mut Vec<usize>, out: &mut Vec<Vec<usize>>) {
    out.push(cur.clone());
    for (i, k) in e.kids.iter().enumerate() {
        if let Node::Elem(c) = k {
            cur.push(i);
            elem_paths(c, cur, out);
            cur.pop();
        }
    }
}

fn at_mut<'a>(e: &'a mut Elem, path: &[usize]) -> &'a mut Elem {
    let mut cur = e;
    for i in path {
        cur = match &mut cur.kids[*i] {
            Node::Elem(c) => c,
            _ => unreachable!(),
        };
    }
    cur
}

fn at<'a>(e: &'a Elem, path: &[usize]) -> &'a Elem {
    let mut cur = e;
    for i in path {
        cur = match &cur.kids[*i] {
            Node::Elem(c) => c,
            _ => unreachable!(),
        };
    }
    cur
}

fn remove_doc(s: &Session, di: usize) -> Session {
    let mut c = s.clone();
    c.docs.remove(di);
    c.alts.remove(di);
    for r in c.replicas.iter_mut() {
        r.steps.retain(|st| !matches!(st.input, Input::Doc(i) | Input::Alt(i) if i == di));
        for st in r.steps.iter_mut() {
            match &mut st.input {
                Input::Doc(i) | Input::Alt(i) if *i > di => *i -= 1,
                _ => {}
            }
        }
    }
    c
}

fn rename_all(e: &mut Elem, from: &str, to: &str, attrs: bool) {
    if !attrs && e.name == from {
        e.name = to.to_string();
    }
    if attrs {
        for a in e.attrs.iter_mut() {
            if a.name == from {
                a.name = to.to_string();
            }
        }
    }
    for k in e.kids.iter_mut() {
        if let Node::Elem(c) = k {
            rename_all(c, from, to, attrs);
        }
    }
}

fn names_of(e: &Elem, elems: &mut Vec<String>, attrs: &mut Vec<String>) {
    if !elems.contains(&e.name) {
        elems.push(e.name.clone());
    }
    for a in &e.attrs {
        if !attrs.contains(&a.name) {
            attrs.push(a.name.clone());
        }
    }
    for c in e.elems() {
        names_of(c, elems, attrs);
    }
}

fn for_each_doc(s: &Session) -> Vec<(bool, usize)> {
    let mut v = Vec::new();
    for i in 0..s.docs.len() {
        v.push((false, i));
        if s.alts[i].is_some() {
            v.push((true, i));
        }
    }
    v
}

fn doc_mut(s: &mut Session, alt: bool, i: usize) -> &mut Doc {
    if alt {
        s.alts[i].as_mut().unwrap()
    } else {
        &mut s.docs[i]
    }
}

pub fn shrink_session(start: &Session, fails: &mut dyn FnMut(&Session) -> bool, max_evals: usize) -> (Session, usize) {
    let mut cur = start.clone();
    let mut b = Budget { evals: 0, max: max_evals, start: std::time::Instant::now(), secs: 90 };
    loop {
        let mut progress = false;
        // 1. drop replicas (from the end)
        let mut i = cur.replicas.len();
        while i > 0 {
            i -= 1;
            if cur.replicas.len() > 1 {
                let mut c = cur.clone();
                c.replicas.remove(i);
                progress |= try_accept(&mut cur, c, fails, &mut b);
            }
        }
        // 2. drop whole documents
        let mut i = cur.docs.len();
        while i > 0 {
            i -= 1;
            if cur.docs.len() > 1 {
                let c = remove_doc(&cur, i);
                progress |= try_accept(&mut cur, c, fails, &mut b);
            }
        }
        // 3. drop single steps
        for ri in 0..cur.replicas.len() {
            let mut si = cur.replicas[ri].steps.len();
            while si > 0 {
                si -= 1;
                if cur.replicas[ri].steps.len() > 1 {
                    let mut c = cur.clone();
                    c.replicas[ri].steps.remove(si);
                    progress |= try_accept(&mut cur, c, fails, &mut b);
                }
            }
        }
        // 3b. drop warm-up deliveries
        for ri in 0..cur.replicas.len() {
            let mut wi = cur.replicas[ri].warmup.len();
            while wi > 0 {
                wi -= 1;
                let mut c = cur.clone();
                c.replicas[ri].warmup.remove(wi);
                progress |= try_accept(&mut cur, c, fails, &mut b);
            }
        }
        // 4. drop rewritten twins, keep one render option
        for i in 0..cur.alts.len() {
            if cur.alts[i].is_some() {
                let mut c = cur.clone();
                c.alts[i] = None;
                progress |= try_accept(&mut cur, c, fails, &mut b);
            }
        }
        if cur.opts.len() > 1 {
            for i in 0..cur.opts.len() {
                let mut c = cur.clone();
                c.opts = vec![cur.opts[i].clone()];
                if try_accept(&mut cur, c, fails, &mut b) {
                    progress = true;
                    break;
                }
            }
        }
        // 5. tree edits
        for (alt, di) in for_each_doc(&cur) {
            // prolog / epilog
            {
                let mut c = cur.clone();
                let d = doc_mut(&mut c, alt, di);
                d.prolog.clear();
                d.epilog.clear();
                progress |= try_accept(&mut cur, c, fails, &mut b);
            }
            loop {
                let mut changed = false;
                let mut paths = Vec::new();
                let root = if alt { &cur.alts[di].as_ref().unwrap().root } else { &cur.docs[di].root };
                elem_paths(root, &mut Vec::new(), &mut paths);
                // very large documents: only the first few thousand positions are tried (the time bound applies anyway)
                'outer: for p in paths.iter().take(3000) {
                    if b.start.elapsed().as_secs() >= b.secs {
                        b.evals = b.max;
                        break;
                    }
                    let (nk, na) = {
                        let root = if alt { &cur.alts[di].as_ref().unwrap().root } else { &cur.docs[di].root };
                        let e = at(root, p);
                        (e.kids.len().min(400), e.attrs.len())
                    };
                    for j in (0..nk).rev() {
                        let mut c = cur.clone();
                        at_mut(&mut doc_mut(&mut c, alt, di).root, p).kids.remove(j);
                        if try_accept(&mut cur, c, fails, &mut b) {
                            changed = true;
                            break 'outer;
                        }
                    }
                    for j in (0..na).rev() {
                        let mut c = cur.clone();
                        at_mut(&mut doc_mut(&mut c, alt, di).root, p).attrs.remove(j);
                        if try_accept(&mut cur, c, fails, &mut b) {
                            changed = true;
                            break 'outer;
                        }
                    }
                }
                if !changed || b.evals >= b.max {
                    break;
                }
                progress = true;
            }
            // incidental detail
            {
                let mut c = cur.clone();
                fn plain(e: &mut Elem) {
                    e.ws = 0;
                    for a in e.attrs.iter_mut() {
                        a.value = "v".into();
                        a.quote = b'"';
                    }
                    for k in e.kids.iter_mut() {
                        match k {
                            Node::Elem(c) => plain(c),
                            Node::Text(t) => *t = "x".into(),
                            _ => {}
                        }
                    }
                }
                plain(&mut doc_mut(&mut c, alt, di).root);
                progress |= try_accept(&mut cur, c, fails, &mut b);
            }
        }
        // 6. simpler names (consistently across all documents)
        {
            let mut elems = Vec::new();
            let mut attrs = Vec::new();
            for (alt, di) in for_each_doc(&cur) {
                let mut tmp = cur.clone();
                names_of(&doc_mut(&mut tmp, alt, di).root, &mut elems, &mut attrs);
            }
            for (is_attr, list) in [(false, elems.clone()), (true, attrs.clone())] {
                for n in list {
                    if n.len() == 1 && n.is_ascii() {
                        continue;
                    }
                    for cand in ["a", "b", "c", "d", "e", "f"] {
                        let used = if is_attr { &attrs } else { &elems };
                        if used.iter().any(|u| u == cand) {
                            continue;
                        }
                        let mut c = cur.clone();
                        for (alt, di) in for_each_doc(&cur) {
                            rename_all(&mut doc_mut(&mut c, alt, di).root, &n, cand, is_attr);
                        }
                        if try_accept(&mut cur, c, fails, &mut b) {
                            progress = true;
                            if is_attr {
                                attrs.push(cand.to_string());
                            } else {
                                elems.push(cand.to_string());
                            }
                            break;
                        }
                    }
                }
            }
        }
        // 7. simpler environment: slice reader, default configuration, small entropies
        for ri in 0..cur.replicas.len() {
            for si in 0..cur.replicas[ri].steps.len() {
                if !cur.replicas[ri].steps[si].plan.slice {
                    let mut c = cur.clone();
                    c.replicas[ri].steps[si].plan = Plan::slice();
                    if !try_accept(&mut cur, c, fails, &mut b) {
                        // keep the kind of plan but make it smaller
                        let p = cur.replicas[ri].steps[si].plan.clone();
                        if !p.eintr.is_empty() {
                            let mut c = cur.clone();
                            c.replicas[ri].steps[si].plan.eintr.clear();
                            progress |= try_accept(&mut cur, c, fails, &mut b);
                        }
                        if p.bufreader_cap != 0 {
                            let mut c = cur.clone();
                            c.replicas[ri].steps[si].plan.bufreader_cap = 0;
                            progress |= try_accept(&mut cur, c, fails, &mut b);
                        }
                        let mut k = cur.replicas[ri].steps[si].plan.cuts.len();
                        while k > 0 {
                            k -= 1;
                            let mut c = cur.clone();
                            c.replicas[ri].steps[si].plan.cuts.remove(k);
                            progress |= try_accept(&mut cur, c, fails, &mut b);
                        }
                    } else {
                        progress = true;
                    }
                }
                if cur.replicas[ri].steps[si].cfg != 0 {
                    let mut c = cur.clone();
                    c.replicas[ri].steps[si].cfg = 0;
                    progress |= try_accept(&mut cur, c, fails, &mut b);
                }
            }
            if cur.replicas[ri].entropy > 31 {
                for e in 0..32u128 {
                    if cur.replicas.iter().any(|r| r.entropy == e) {
                        continue;
                    }
                    let mut c = cur.clone();
                    c.replicas[ri].entropy = e;
                    if try_accept(&mut cur, c, fails, &mut b) {
                        progress = true;
                        break;
                    }
                }
            }
        }
        if !progress || b.evals >= b.max {
            break;
        }
    }
    (cur, b.evals)
}

// ---------------------------------------------------------------------------------------------
// CLI cases
// ---------------------------------------------------------------------------------------------

use crate::cli::{CliCase, InState, OutState};

pub fn shrink_cli(start: &CliCase, fails: &mut dyn FnMut(&CliCase) -> bool, max_evals: usize) -> (CliCase, usize) {
    let mut cur = start.clone();
    let mut evals = 0usize;
    let started = std::time::Instant::now();
    let mut attempt = |cur: &mut CliCase, cand: CliCase, evals: &mut usize| -> bool {
        if *evals >= max_evals || cand == *cur {
            return false;
        }
        if started.elapsed().as_secs() >= 90 {
            *evals = max_evals;
            return false;
        }
        *evals += 1;
        if fails(&cand) {
            *cur = cand;
            true
        } else {
            false
        }
    };
    if cur.sweep {
        // a failing sweep is reduced to the one plan that fails
        for p in crate::cli::single_fault_plans() {
            let mut c = cur.clone();
            c.sweep = false;
            c.plan = vec![p];
            if attempt(&mut cur, c, &mut evals) {
                break;
            }
        }
    }
    loop {
        let mut progress = false;
        // fewer faults
        let mut i = cur.plan.len();
        while i > 0 {
            i -= 1;
            let mut c = cur.clone();
            c.plan.remove(i);
            progress |= attempt(&mut cur, c, &mut evals);
        }
        if cur.twin_entropy.is_some() {
            let mut c = cur.clone();
            c.twin_entropy = None;
            progress |= attempt(&mut cur, c, &mut evals);
        }
        // default options
        if !cur.opt_args.is_empty() {
            let mut c = cur.clone();
            c.opt_args.clear();
            c.serde_xml_rs = false;
            c.by_name = false;
            c.derive = None;
            progress |= attempt(&mut cur, c, &mut evals);
        }
        // simpler world
        for (a, b) in [("in.xml", "out.rs")] {
            if cur.input_name != a || (cur.output_name != b && !matches!(cur.output, OutState::InMissingDir)) {
                let mut c = cur.clone();
                c.input_name = a.into();
                if !matches!(c.output, OutState::InMissingDir) {
                    c.output_name = b.into();
                }
                progress |= attempt(&mut cur, c, &mut evals);
            }
        }
        if !matches!(cur.output, OutState::Stdout) {
            let mut c = cur.clone();
            c.output = OutState::Stdout;
            c.output_name = "out.rs".into();
            progress |= attempt(&mut cur, c, &mut evals);
        }
        if let OutState::Existing(b) = &cur.output {
            if b.len() > 1 {
                let mut c = cur.clone();
                c.output = OutState::Existing(b"x".to_vec());
                if !attempt(&mut cur, c, &mut evals) {
                    let mut c = cur.clone();
                    c.output = OutState::New;
                    progress |= attempt(&mut cur, c, &mut evals);
                } else {
                    progress = true;
                }
            }
        }
        // smaller input: remove chunks of decreasing size
        if let InState::Fifo(b) = &cur.input {
            // a regular file is the simpler world
            let mut c = cur.clone();
            c.input = InState::Present(b.clone());
            progress |= attempt(&mut cur, c, &mut evals);
        }
        if let InState::Present(b) = &cur.input {
            let mut data = b.clone();
            let mut chunk = (data.len() / 2).max(1);
            while chunk >= 1 && evals < max_evals {
                let mut i = 0;
                let mut any = false;
                while i < data.len() && evals < max_evals {
                    let e = (i + chunk).min(data.len());
                    let mut d2 = data.clone();
                    d2.drain(i..e);
                    let mut c = cur.clone();
                    c.input = InState::Present(d2.clone());
                    if attempt(&mut cur, c, &mut evals) {
                        data = d2;
                        any = true;
                        progress = true;
                    } else {
                        i += chunk;
                    }
                }
                if chunk == 1 && !any {
                    break;
                }
                if !any {
                    chunk /= 2;
                }
            }
        }
        if !progress || evals >= max_evals {
            break;
        }
    }
    (cur, evals)
}
