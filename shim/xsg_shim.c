/*
 * xsg_shim — LD_PRELOAD fault injector for the xml_schema_generator CLI (seam S4, DESIGN.md §2.7).
 *
 * Interposes the libc entry points the binary uses to talk to the kernel about files and entropy:
 *   open64/open/openat, read, write, writev, statx, fstat64, getrandom, close.
 * The fault plan arrives in the environment:
 *   XSG_FAULT_PLAN = entry(';'entry)*
 *     open:<nth>:<errno>          nth (0-based) tracked open fails with errno (EINTR = 4 must be retried by std)
 *     read:<nth>:<errno>          nth read on a tracked fd fails
 *     read:<nth>:short=<n>        nth read on a tracked fd returns at most n bytes
 *     write:<nth>:<errno>         nth write on a tracked fd / stdout / stderr fails
 *     write:<nth>:short=<n>       nth such write accepts at most n bytes
 *     statx:<nth|*>:<errno>       nth (or every) statx / fstat on a tracked fd fails
 *     getrandom:<32 hex digits>   the 16 bytes std asks for to key RandomState
 *   XSG_SHIM_REPORT = path of a file that receives one line per intercepted call and per fired fault.
 * "Tracked" = opened by the program itself from a path that is not under /proc, /sys, /lib, /usr, /etc, /dev.
 * Everything real is done with raw syscalls, so the shim never re-enters itself.
 */
#define _GNU_SOURCE
#include <dlfcn.h>
#include <errno.h>
#include <fcntl.h>
#include <stdarg.h>
#include <stdio.h>
#include <stdlib.h>
#include <string.h>
#include <sys/stat.h>
#include <sys/syscall.h>
#include <sys/types.h>
#include <sys/uio.h>
#include <unistd.h>

#define MAXE 32
enum { K_OPEN, K_READ, K_WRITE, K_STATX };
struct entry { int kind; long nth; int err; long shortn; int used; };
static struct entry plan[MAXE];
static int nplan = 0;
static int have_entropy = 0;
static unsigned char entropy[16];
static long counter[4];
static int report_fd = -1;
static unsigned char tracked[1024];
static int inited = 0;

static void rep(const char *fmt, ...) {
    if (report_fd < 0) return;
    char buf[256];
    va_list ap;
    va_start(ap, fmt);
    int n = vsnprintf(buf, sizeof buf, fmt, ap);
    va_end(ap);
    if (n > 0) syscall(SYS_write, report_fd, buf, (size_t)(n < (int)sizeof buf ? n : (int)sizeof buf - 1));
}

static int hexv(int c) {
    if (c >= '0' && c <= '9') return c - '0';
    if (c >= 'a' && c <= 'f') return c - 'a' + 10;
    if (c >= 'A' && c <= 'F') return c - 'A' + 10;
    return -1;
}

static char *(*real_getenv)(const char *) = NULL;
static char *env_of(const char *name) {
    if (!real_getenv) real_getenv = (char *(*)(const char *))dlsym(RTLD_NEXT, "getenv");
    return real_getenv ? real_getenv(name) : NULL;
}

static void init(void) {
    if (inited) return;
    inited = 1;
    const char *r = env_of("XSG_SHIM_REPORT");
    if (r && *r) {
        int fd = (int)syscall(SYS_openat, AT_FDCWD, r, O_WRONLY | O_CREAT | O_APPEND | O_CLOEXEC, 0644);
        if (fd >= 0) {
            /* move out of the way so that the program sees the fd numbers it would see without us */
            int hi = (int)syscall(SYS_fcntl, fd, F_DUPFD_CLOEXEC, 900);
            if (hi >= 0) { syscall(SYS_close, fd); report_fd = hi; } else report_fd = fd;
        }
    }
    const char *p = env_of("XSG_FAULT_PLAN");
    if (!p) return;
    char *s = strdup(p);
    for (char *tok = strtok(s, ";"); tok; tok = strtok(NULL, ";")) {
        if (!strncmp(tok, "getrandom:", 10)) {
            const char *h = tok + 10;
            if (strlen(h) >= 32) {
                for (int i = 0; i < 16; i++) entropy[i] = (unsigned char)(hexv(h[2 * i]) * 16 + hexv(h[2 * i + 1]));
                have_entropy = 1;
            }
            continue;
        }
        if (nplan >= MAXE) break;
        struct entry e = {0, 0, 0, -1, 0};
        char *c1 = strchr(tok, ':');
        if (!c1) continue;
        *c1 = 0;
        char *c2 = strchr(c1 + 1, ':');
        if (!c2) continue;
        *c2 = 0;
        if (!strcmp(tok, "open")) e.kind = K_OPEN;
        else if (!strcmp(tok, "read")) e.kind = K_READ;
        else if (!strcmp(tok, "write")) e.kind = K_WRITE;
        else if (!strcmp(tok, "statx")) e.kind = K_STATX;
        else continue;
        e.nth = (c1[1] == '*') ? -1 : atol(c1 + 1);
        if (!strncmp(c2 + 1, "short=", 6)) e.shortn = atol(c2 + 7);
        else e.err = atoi(c2 + 1);
        plan[nplan++] = e;
    }
    free(s);
}

static struct entry *lookup(int kind) {
    long n = counter[kind]++;
    for (int i = 0; i < nplan; i++)
        if (plan[i].kind == kind && (plan[i].nth == n || plan[i].nth == -1)) { plan[i].used++; return &plan[i]; }
    return NULL;
}

static int interesting(const char *path) {
    if (!path) return 0;
    if (!strcmp(path, "/dev/null")) return 1; /* a legitimate output path of the program */
    static const char *skip[] = {"/proc/", "/sys/", "/lib", "/usr/", "/etc/", "/dev/", NULL};
    for (int i = 0; skip[i]; i++)
        if (!strncmp(path, skip[i], strlen(skip[i]))) return 0;
    return 1;
}

static int is_tracked(int fd) { return fd >= 0 && fd < 1024 && tracked[fd]; }

static int do_open(int dirfd, const char *path, int flags, mode_t mode) {
    init();
    if (!interesting(path)) return (int)syscall(SYS_openat, dirfd, path, flags, mode);
    struct entry *e = lookup(K_OPEN);
    rep("call open n=%ld flags=%d path=%s\n", counter[K_OPEN] - 1, flags, path);
    if (e && e->err) {
        rep("fired open errno=%d\n", e->err);
        errno = e->err;
        return -1;
    }
    long fd = syscall(SYS_openat, dirfd, path, flags, mode);
    if (fd >= 0 && fd < 1024) tracked[fd] = 1;
    rep("ret open fd=%ld errno=%d\n", fd, fd < 0 ? errno : 0);
    return (int)fd;
}

int open64(const char *path, int flags, ...) {
    mode_t mode = 0;
    if (flags & (O_CREAT | O_TMPFILE)) { va_list ap; va_start(ap, flags); mode = va_arg(ap, mode_t); va_end(ap); }
    return do_open(AT_FDCWD, path, flags, mode);
}
int open(const char *path, int flags, ...) {
    mode_t mode = 0;
    if (flags & (O_CREAT | O_TMPFILE)) { va_list ap; va_start(ap, flags); mode = va_arg(ap, mode_t); va_end(ap); }
    return do_open(AT_FDCWD, path, flags, mode);
}
int openat64(int dirfd, const char *path, int flags, ...) {
    mode_t mode = 0;
    if (flags & (O_CREAT | O_TMPFILE)) { va_list ap; va_start(ap, flags); mode = va_arg(ap, mode_t); va_end(ap); }
    return do_open(dirfd, path, flags, mode);
}
int openat(int dirfd, const char *path, int flags, ...) {
    mode_t mode = 0;
    if (flags & (O_CREAT | O_TMPFILE)) { va_list ap; va_start(ap, flags); mode = va_arg(ap, mode_t); va_end(ap); }
    return do_open(dirfd, path, flags, mode);
}

int close(int fd) {
    init();
    if (is_tracked(fd)) { tracked[fd] = 0; rep("call close fd=%d\n", fd); }
    return (int)syscall(SYS_close, fd);
}

ssize_t read(int fd, void *buf, size_t len) {
    init();
    if (!is_tracked(fd)) return syscall(SYS_read, fd, buf, len);
    struct entry *e = lookup(K_READ);
    rep("call read n=%ld fd=%d len=%zu\n", counter[K_READ] - 1, fd, len);
    if (e && e->err) {
        rep("fired read errno=%d\n", e->err);
        errno = e->err;
        return -1;
    }
    if (e && e->shortn >= 0 && (size_t)e->shortn < len) {
        rep("fired read short=%ld\n", e->shortn);
        len = (size_t)e->shortn > 0 ? (size_t)e->shortn : 1;
    }
    return syscall(SYS_read, fd, buf, len);
}

static int write_target(int fd) { return is_tracked(fd) || fd == 1 || fd == 2; }

ssize_t write(int fd, const void *buf, size_t len) {
    init();
    if (!write_target(fd) || fd == report_fd) return syscall(SYS_write, fd, buf, len);
    struct entry *e = lookup(K_WRITE);
    rep("call write n=%ld fd=%d len=%zu\n", counter[K_WRITE] - 1, fd, len);
    if (e && e->err) {
        rep("fired write errno=%d fd=%d\n", e->err, fd);
        errno = e->err;
        return -1;
    }
    if (e && e->shortn >= 0 && (size_t)e->shortn < len) {
        rep("fired write short=%ld fd=%d\n", e->shortn, fd);
        len = (size_t)e->shortn > 0 ? (size_t)e->shortn : 1;
    }
    return syscall(SYS_write, fd, buf, len);
}

ssize_t writev(int fd, const struct iovec *iov, int cnt) {
    init();
    if (!write_target(fd)) return syscall(SYS_writev, fd, iov, cnt);
    struct entry *e = lookup(K_WRITE);
    rep("call writev n=%ld fd=%d cnt=%d\n", counter[K_WRITE] - 1, fd, cnt);
    if (e && e->err) {
        rep("fired write errno=%d fd=%d\n", e->err, fd);
        errno = e->err;
        return -1;
    }
    if (e && e->shortn >= 0 && cnt > 0 && (size_t)e->shortn < iov[0].iov_len) {
        rep("fired write short=%ld fd=%d\n", e->shortn, fd);
        size_t n = (size_t)e->shortn > 0 ? (size_t)e->shortn : 1;
        return syscall(SYS_write, fd, iov[0].iov_base, n);
    }
    return syscall(SYS_writev, fd, iov, cnt);
}

struct statx;
int statx(int dirfd, const char *path_arg, int flags, unsigned int mask, struct statx *buf) {
    /* glibc declares the path argument nonnull, but std probes statx(0, NULL, ..) on purpose: the volatile copy keeps
     * the compiler from deleting the NULL checks below */
    const char *volatile path_v = path_arg;
    const char *path = path_v;
    init();
    if (is_tracked(dirfd) && (!path || !*path)) {
        struct entry *e = lookup(K_STATX);
        rep("call statx n=%ld fd=%d\n", counter[K_STATX] - 1, dirfd);
        if (e && e->err) {
            rep("fired statx errno=%d\n", e->err);
            errno = e->err;
            return -1;
        }
    }
    if (path && *path && interesting(path)) rep("call statx-path path=%s\n", path);
    return (int)syscall(SYS_statx, dirfd, path, flags, mask, buf);
}

int fstat64(int fd, struct stat64 *st) {
    init();
    if (is_tracked(fd)) {
        struct entry *e = lookup(K_STATX);
        rep("call fstat n=%ld fd=%d\n", counter[K_STATX] - 1, fd);
        if (e && e->err) {
            rep("fired statx errno=%d\n", e->err);
            errno = e->err;
            return -1;
        }
    }
    return (int)syscall(SYS_fstat, fd, st);
}

ssize_t getrandom(void *buf, size_t len, unsigned int flags) {
    init();
    if (have_entropy && len == 16) {
        memcpy(buf, entropy, 16);
        rep("fired getrandom len=16\n");
        return 16;
    }
    rep("call getrandom len=%zu (real)\n", len);
    return syscall(SYS_getrandom, buf, len, flags);
}

/* Environment variables are an input too: every name the program asks for is reported, so that the harness can
 * run the same world again with that variable set and demand the same outcome. */
char *getenv(const char *name) {
    static int busy = 0;
    if (name && !busy && strncmp(name, "XSG_", 4) && strncmp(name, "LD_", 3)) {
        busy = 1;
        init();
        rep("getenv %s\n", name);
        busy = 0;
    }
    return env_of(name);
}
